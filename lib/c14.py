META = dict(
    level='model_checking',
    rule=('BFS over lifecycle histories on three sandbox objects of one mbox type (bool-returning create, by-name lookup, registry-style membership), replayed on '
          'fresh objects in lock-step with a reference state machine (NOT_CREATED / CREATED / FAILED); transitions per object: create(ok, library 1), create(ok, '
          'library 2), create(fail), destroy, register callback, end callback owner, invoke lib_id by name (21 operations); depth 6 (10 thorough) with '
          'deduplication on (model state, live-list order, symbol-cache size, key-list size, status word). In every state, for every object: finder on four '
          'addresses of its region, live-list content, malloc / free / get_app_pointer, example-based store+load of a data pointer and a function pointer, '
          'and a registration probe on a replayed copy.'),
    assumptions=['an object whose last create failed is outside the window (allocation null, frees ignored, registration aborts, not findable, not listed); create / destroy on such an object are unconstrained and not explored further', 'a refused operation (create on a created object, destroy / register outside the window) must leave the object unchanged and the history goes on; only an unexpected abort ends it; a violated state is not expanded',
                 'ending an owner of an earlier incarnation while the same function is registered again is the C13 known finding and is not reachable with one owner slot per object'],
)


def run(ctx):
    b = ctx.build('c14', 'c14.cpp', opt='-O1', access=True)
    ctx.run(b, ['--thorough'] if ctx.thorough else [], parts=4)
