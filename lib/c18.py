META = dict(
    level='model_checking',
    rule=('stateless exploration of thread schedules on the real code under a cooperative scheduler over real OS threads: 2 and 3 threads, each owning one sandbox object '
          'of the same backend type and running the script create / malloc / example-based pointer store+load / register callback / invoke a guest function that yields '
          'and calls the callback (which checks its sandbox reference and performs a nested invocation) / unregister / take two app pointers, record the tokens and resolve them / free / destroy / create again / ... / destroy; '
          'scheduling points at every acquire and release of RLBox\'s shared locks (own lock type through RLBOX_USE_CUSTOM_SHARED_LOCK; a second build keeps the library\'s DEFAULT lock macros and interposes the pthread rwlock operations they end in) and at yields inside mbox backend '
          'entry points, guest functions and callbacks; all schedules with at most 2 preemptions for two threads and 1 for three threads (thorough: 3 and 2) are enumerated depth-first (choice 0 = keep '
          'running); the three-thread space is explored a second time with every sandbox created before the threads start (list order 0,1,2), so that use of the last-created sandbox races with the destruction of an earlier one within the same bound. Oracle per schedule: each thread\'s observation sequence equals its solo run; no deadlock; no vector-clock race on the RLBOX_VERIF_SHARED accesses '
          'to the process-wide sandbox list; a replayed prefix that does not fit is a hard error. Backends: mbox in registry mode (the list is on the hot path of every '
          'pointer translation) and noop (thread_local record, library-provided and embedder-provided). states/transitions = scheduling points executed, traces = complete schedules.'),
    assumptions=['2-3 threads, preemption bound 1-3, fixed scripts - not the "2..16 threads, random sequences" of the quantifier text',
                 'unsynchronised accesses that are neither annotated nor separated by a yield are invisible to a cooperative scheduler; the free-running ThreadSanitizer supplement (thorough tier) looks for those and is not a deciding step',
                 'weak-memory behaviour of the status atomic is not modelled'],
)


def run(ctx):
    specs = [('c18_mbox', 'c18.cpp', dict(opt='-O1', hooks=True, access=True)),
             ('c18_noop', 'c18.cpp', dict(opt='-O1', hooks=True, access=True, defs=['C18_NOOP'])),
             # the embedder-provided per-thread record (RLBOX_EMBEDDER_PROVIDES_TLS_STATIC_VARIABLES + the backend's STATIC_VARIABLES macro)
             ('c18_noop_etls', 'c18.cpp', dict(opt='-O1', hooks=True, access=True, defs=['C18_NOOP', 'BK_EMBEDDER_TLS'])),
             # the library's DEFAULT lock macros (std shared mutex), scheduled by interposing the pthread rwlock operations they end in
             ('c18_mbox_deflock', 'c18.cpp', dict(opt='-O1', hooks=True, access=True, defs=['VS_DEFAULT_LOCKS'], link=['-ldl']))]
    if ctx.thorough:
        specs.append(('c18_tsan', 'c18_tsan.cpp', dict(opt='-O1', hooks=False, access=False, compiler='clang++', flags=['-fsanitize=thread', '-g'])))
    bins = ctx.build_many(specs)
    if ctx.thorough:
        plan = [('c18_mbox', 2, 3, 2), ('c18_noop', 2, 3, 2), ('c18_mbox', 3, 2, 1), ('c18_noop', 3, 2, 1), ('c18_mbox_deflock', 2, 2, 2), ('c18_mbox_deflock', 3, 2, 1), ('c18_noop_etls', 2, 3, 2), ('c18_noop_etls', 3, 2, 1)]
    else:
        plan = [('c18_mbox', 2, 2, 2), ('c18_noop', 2, 2, 2), ('c18_mbox', 3, 1, 1), ('c18_noop', 3, 1, 1), ('c18_mbox_deflock', 2, 2, 1), ('c18_noop_etls', 2, 2, 2)]
    for b, th, bound, ln in plan:
        ctx.run(bins[b], ['--threads', th, '--bound', bound, '--len', ln])
    # all sandboxes created before the threads start: use / destroy / re-create race from the first step on
    pre = [('c18_mbox', 3, 2, 1), ('c18_noop', 3, 2, 1), ('c18_mbox', 2, 2, 2)] if ctx.thorough else [('c18_mbox', 3, 1, 1), ('c18_noop', 3, 1, 1)]
    for b, th, bound, ln in pre:
        ctx.run(bins[b], ['--threads', th, '--bound', bound, '--len', ln, '--pre', 1])
    if ctx.thorough:
        import subprocess, os
        env = dict(os.environ, TSAN_OPTIONS='halt_on_error=0:report_signal_unsafe=0')
        try:
            p = subprocess.run([bins['c18_tsan']], capture_output=True, text=True, timeout=600, env=env)
            n = p.stderr.count('WARNING: ThreadSanitizer')
            ctx.extra_cov['tsan_supplement'] = dict(reports=n, exit=p.returncode, note='free-running, 16 threads; supplementary, not deciding')
            if n:
                ctx.note('ThreadSanitizer supplement printed %d reports (see out/C18/tsan.log)' % n)
                open(os.path.join(ctx.out, 'tsan.log'), 'w').write(p.stderr[-20000:])
        except Exception as e:
            ctx.extra_cov['tsan_supplement'] = dict(error=str(e)[:200])
