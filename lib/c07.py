META = dict(
    level='exploration',
    rule=('cases = (operation, type, address, value or guest bit pattern, background pattern, form/path); types: bool, 3 char types, short/int/long/long long '
          'and unsigned forms, char16_t, char32_t, enum, float, double, int*, function pointer, long[3], int*[2], struct fields; addresses: offsets 1..63, every '
          'offset of the last 64+size bytes (objects ending on the last byte of the region, PROT_NONE page behind) and a stride through the interior; values: '
          'boundary lattice incl. values that do not fit the guest type; backgrounds 0x00/0xFF/0xA5; stores from plain/tainted/tainted_volatile sources (sandbox-to-sandbox copies of scalars, long[3] and int*[2] take their source from a cell whose neighbourhood differs from that of the destination on both sides, so a copy of the wrong length shows); loads '
          'through conversion to tainted, UNSAFE_unverified, copy_and_verify on the pointer, copy_and_verify_range (1 and 2 elements), p[i], p->, copy_and_verify '
          'on the value. Oracle: reference little-endian encoder/decoder over a hand-written lp32 layout; after a store the whole 64 KiB region equals the '
          'background except the object bytes; loads decode exactly those bytes; SIGSEGV on the guard page = violation. non-trivial = object touching the last '
          'byte / first bytes of the region or a value that does not fit.'),
    assumptions=['little-endian guest; misaligned accesses are exercised because x86 permits them', 'lp32 and wide integer ABIs with 16-bit pointers; pointer/array/struct cases under lp32 with 16-bit and with 64-bit base-relative pointers'],
)


def run(ctx):
    specs = [('c07_' + k.lower(), 'c07.cpp', dict(opt='-O1', defs=['C07_' + k])) for k in 'ABC']
    # the wide ABI makes the guest object WIDER than the application type: a load with the application width under-reads
    specs += [('c07w_' + k.lower(), 'c07.cpp', dict(opt='-O1', defs=['C07_' + k, 'C07_WIDE'])) for k in 'ABC']
    # pointer cells, pointer arrays and struct fields again with a pointer-wide (64-bit, base-relative) guest representation
    specs += [('c07p64_d', 'c07.cpp', dict(opt='-O1', defs=['C07_D', 'C07_P64']))]
    bins = ctx.build_many(specs)
    a = ['--thorough'] if ctx.thorough else []
    for k in 'ABC':
        ctx.run(bins['c07_' + k.lower()], a)
    for k in 'ABC':
        ctx.run(bins['c07w_' + k.lower()], a)
    ctx.run(bins['c07p64_d'], a)
