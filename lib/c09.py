META = dict(
    level='model_checking',
    rule=('executions = (copy_and_verify variant, source content/placement, adversary script); variants: copy_and_verify on primitive value, on T* (5 pointee types), '
          'on struct pointer, struct value, fixed array (verifiers taking their parameter by value and by const reference / const auto&); copy_and_verify_range (char/short/int/long x counts 1-4); copy_and_verify_string with unique_ptr<char[]>, '
          'unique_ptr<const char[]> and std::string verifiers (lengths 0-3, interior and ending on the last byte of the region); copy_and_verify_address / '
          '_buffer_address; copy_memory_or_deny_access; narrowing loads under an ABI whose int / short are wider than the application\'s (cell rewritten between the range check and the conversion; the application must get a value the cell held that fits, or an abort); ATOMIC EQUIVALENCE of single-cell copies (13 primitive types incl. bool, 4 access paths): the outcome under the adversary - abort or the bytes received - must equal the outcome of the same call on a still cell holding one of the contents the cell held; and the same range / pointer / address / buffer-address / string variants with a RECEIVER THAT IS A POINTER CELL IN SANDBOX MEMORY '
          '(tainted_volatile<T*>), where the adversary may also re-point the cell (to a second object, to the last element of the region, to null) between RLBox\'s reads of it: the '
          'verifier must get nothing, or content read from an address the cell held, or an address the cell held whose checked extent lies inside the region. A script is a set of at most 2 (thorough: 3) events (read-point index, mutation) with mutation in {lengthen, '
          'NUL at 0, NUL in the middle, remove every NUL to the end of the region, flip all, flip first byte, overwrite}; all scripts over all hooked read points are '
          'enumerated (0 events first, then 1, then 2); the region is always overwritten again when the verifier starts. states = read points discovered, '
          'transitions = executions (each one is the real code under one adversary schedule).'),
    assumptions=['the adversary acts at read granularity: writes commute with RLBox steps that do not read sandbox memory; bulk reads (strlen, memcpy) are atomic',
                 'removing every terminator before RLBox measured the string is excluded here (it is the unbounded-strlen finding recorded under C10)',
                 'hardware memory-ordering effects and torn reads inside one machine access are not modelled'],
)


def run(ctx):
    bins = ctx.build_many([('c09', 'c09.cpp', dict(opt='-O1', hooks=True)),
                           # guest int / short wider than the application's: loads narrow (range check and conversion must use one read)
                           ('c09_wide', 'c09.cpp', dict(opt='-O1', hooks=True, defs=['C09_WIDE']))])
    ctx.run(bins['c09'], ['--thorough'] if ctx.thorough else [])
    ctx.run(bins['c09_wide'], ['--thorough'] if ctx.thorough else [], parts=2)
