#!/usr/bin/env python3
"""Regenerates /verif/MANIFEST.json from the table below (single source of truth)."""
import json
import os

VERIF = os.path.dirname(os.path.dirname(os.path.abspath(__file__)))

# id -> (category, engine, technique, level text, level note, design ref)
CHECKS = {}

NOT_YET = {}


def reg(pid, category, engine, technique, text, note, ref):
    CHECKS[pid] = dict(category=category, engine=engine, technique=technique, text=text, note=note, ref=ref)


exec(open(os.path.join(VERIF, 'lib', 'registry.py')).read())

ALL = ['C%02d' % i for i in range(1, 21)]


def main():
    checks = []
    for pid in ALL:
        if pid not in CHECKS:
            continue
        c = CHECKS[pid]
        checks.append(dict(
            property_id=pid,
            quick_cmd='bin/check %s --tier quick' % pid,
            thorough_cmd='bin/check %s --tier thorough' % pid,
            evidence_file='evidence/%s.json' % pid,
            replay_cmd_template='bin/check %s --replay {path}' % pid,
            engine=c['engine'],
            level_claimed=dict(category=c['category'], text=c['text'], design_ref=c['ref']),
            level_note=c['note'],
            technique=c['technique'],
        ))
    na = [dict(property_id=p, reason=NOT_YET.get(p, 'check not built yet in this session; planned, see DESIGN.md section 3'))
          for p in ALL if p not in CHECKS]
    hooks_commits = HOOK_COMMITS
    m = dict(
        version=1,
        setup_cmd='bin/setup',
        hooks=dict(
            guard='ALLENABY_RLBOX_VERIF',
            enable='checks compile their harness with -DALLENABY_RLBOX_VERIF against ${VERIF_REPO:-/repo}/code/include (header-only library: compiling the harness is the rebuild)',
            baseline_off_cmd='bin/baseline_off',
            source_commits=hooks_commits,
            add_only=True,
        ),
        engines=ENGINES,
        checks=checks,
        notes=NOTES,
        not_applicable=na,
    )
    with open(os.path.join(VERIF, 'MANIFEST.json'), 'w') as f:
        json.dump(m, f, indent=1)
    print('MANIFEST.json: %d checks, %d not claimed' % (len(checks), len(na)))


if __name__ == '__main__':
    main()
