META = dict(
    level='exploration',
    rule=('cases = (route, source type, destination type, value[s]); routes: convert_type_fundamental directly over all ordered '
          'pairs of 15 integer types (bool only as source), arrays of length 1-3 with every element position carrying every boundary '
          'class, stores/loads of tainted_volatile cells on mbox instances with lp32/wide/tiny ABIs, and for each of 13 integer types under each ABI the four call routes on the real invocation / callback path: invocation argument (plain and tainted) into a guest function written in the guest type, guest result back, callback argument from the guest, callback result to the guest; a long FIELD of a registered struct moved as a whole (store, load, by-value argument, by-value result). Values: all values for 8/16-bit '
          'sources, boundary lattice for wider (thorough: all 2^32 values for 32-bit sources). Oracle: 128-bit value equality or abort '
          'iff unrepresentable. non-trivial = value outside [0,127] (where the outcome depends on the type pair); every case is distinct by construction.'),
    assumptions=['destination type bool from a non-bool source is out of scope (ABI never changes bool)',
                 '64-bit sources are boundary-complete, not value-complete',
                 'aborts observed through RLBOX_CUSTOM_ABORT flag (pure operations)'],
)


def run(ctx):
    specs = [('c06_direct', 'c06.cpp', dict(opt='-O2', defs=['C06_DIRECT'])),
             ('c06_array', 'c06.cpp', dict(opt='-O1', defs=['C06_ARRAY'])),
             ('c06_sl_lp32', 'c06.cpp', dict(opt='-O0', defs=['C06_SL=abi_lp32'])),
             ('c06_sl_wide', 'c06.cpp', dict(opt='-O0', defs=['C06_SL=abi_wide'])),
             ('c06_sl_tiny', 'c06.cpp', dict(opt='-O0', defs=['C06_SL=abi_tiny']))]
    bins = ctx.build_many(specs)
    args = ['--thorough'] if ctx.thorough else []
    ctx.run(bins['c06_direct'], args)
    ctx.run(bins['c06_array'], args)
    for k in ('c06_sl_lp32', 'c06_sl_wide', 'c06_sl_tiny'):
        ctx.run(bins[k], args, parts=4)
    buffers(ctx, args)


def buffers(ctx, args):
    """short / char16_t / char buffers (plain and const) through copy_memory_or_grant_access / copy_memory_or_deny_access under each ABI,
    one build per (ABI, element type). The library may refuse an element type at compile time ("there may be ABI differences"):
    then no integer crosses and the property holds for that pair; any other build failure is a harness error. Under lp32
    (16-bit short) every type must build."""
    from vdriver import CannotDecide
    import re
    import concurrent.futures as cf
    types = [('short', 'short'), ('cshort', 'const short'), ('char16', 'char16_t'), ('cchar16', 'const char16_t'), ('char', 'char'), ('cchar', 'const char')]
    jobs = [(abi, tn, tt) for abi in ('lp32', 'wide', 'tiny') for tn, tt in types]

    def one(job):
        abi, tn, tt = job
        name = 'c06_buf_%s_%s' % (abi, tn)
        try:
            return job, ctx.build(name, 'c06.cpp', opt='-O0', defs=['C06_SL=abi_' + abi, 'C06_BUF=' + tt]), None
        except CannotDecide as e:
            log = ''
            m = re.search(r'log: ([^)]*)\)', str(e))
            if m:
                try:
                    log = open(m.group(1)).read()
                except OSError:
                    pass
            return job, None, (str(e), log)

    refused = []
    with cf.ThreadPoolExecutor(max_workers=16) as ex:
        results = list(ex.map(one, jobs))
    for (abi, tn, tt), b, err in results:
        if b is None:
            if abi != 'lp32' and 'there may be ABI differences' in err[1]:
                refused.append('%s:%s' % (abi, tt))
            else:
                ctx.result.crashed.append('build: ' + err[0])
            continue
        ctx.run(b, args, parts=1)
    ctx.extra_cov['buffer_routes_refused_at_compile_time'] = sorted(refused)
