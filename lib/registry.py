# Table of registered checks; exec'd by mkmanifest.py. Add a reg(...) call when a check is
# built, has been run to completion on the unchanged tree and has failed on at least one mutant.

HOOK_COMMITS = []

ENGINES = [
    dict(name='driver', path='lib/vdriver.py', serves_properties=['C%02d' % i for i in range(1, 21)],
         kind_free_text='python driver: builds each harness against the current tree, runs partitions on 16 cores, replays violations, writes evidence'),
    dict(name='mbox', path='harness/mbox.hpp', serves_properties=[],
         kind_free_text='foreign-ABI model backend (narrow pointers, lp32/wide integer ABI, real membership predicates, several instances at fixed addresses, callbacks, symbol lookup)'),
]

NOTES = ('All checks are bounded exhaustive explorations executed against the real headers in /repo/code/include; '
         'see DESIGN.md. Exit 0 = held, 1 = VIOLATION, 2 = harness could not be built/run against the given tree (CANNOT-DECIDE).')
