# Table of registered checks; exec'd by mkmanifest.py. Add a reg(...) call when a check is
# built, has been run to completion on the unchanged tree and has failed on at least one mutant.

HOOK_COMMITS = []

ENGINES = [
    dict(name='driver', path='lib/vdriver.py', serves_properties=['C%02d' % i for i in range(1, 21)],
         kind_free_text='python driver: builds each harness against the current tree, runs partitions on 16 cores, replays violations, writes evidence'),
    dict(name='mbox', path='harness/mbox.hpp', serves_properties=[],
         kind_free_text='foreign-ABI model backend (narrow pointers, lp32/wide integer ABI, real membership predicates, several instances at fixed addresses, callbacks, symbol lookup)'),
]

NOTES = ('All checks are bounded exhaustive explorations executed against the real headers in /repo/code/include; '
         'see DESIGN.md. Exit 0 = held, 1 = VIOLATION, 2 = harness could not be built/run against the given tree (CANNOT-DECIDE).')

reg('C06', 'exploration', 'X (exhaustive input enumerator)', 'bounded exhaustive input enumeration vs 128-bit reference',
    'Every ordered pair of integer types is driven through the real conversion code with all 8/16-bit source values (all 2^32 values of 32-bit sources in the thorough tier) and a boundary lattice for 64-bit sources, as scalars, as arrays and as stores/loads of sandbox cells under three foreign ABIs; each result is compared with the exact mathematical value or a required abort.',
    'Trusts the compiler and the 128-bit reference predicate; 64-bit sources are boundary-complete only; X->bool (X != bool) excluded by scope decision (DESIGN.md C06).',
    'DESIGN.md section 3, C06')
