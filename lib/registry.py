# Table of registered checks; exec'd by mkmanifest.py. Add a reg(...) call when a check is
# built, has been run to completion on the unchanged tree and has failed on at least one mutant.

HOOK_COMMITS = ['b944277 verif hooks: RLBOX_VERIF_POINT / RLBOX_VERIF_SHARED (guarded by ALLENABY_RLBOX_VERIF)',
                'f7c55e1 verif hooks: read point between the range checks and the cast in convert_type_fundamental (guarded by ALLENABY_RLBOX_VERIF)']

ENGINES = [
    dict(name='driver', path='lib/vdriver.py', serves_properties=['C%02d' % i for i in range(1, 21)],
         kind_free_text='python driver: builds each harness against the current tree, runs partitions on 16 cores, replays violations, writes evidence'),
    dict(name='mbox', path='harness/mbox.hpp', serves_properties=[],
         kind_free_text='foreign-ABI model backend (narrow pointers, lp32/wide integer ABI, real membership predicates, several instances at fixed addresses, callbacks, symbol lookup)'),
]

NOTES = ('All checks are bounded exhaustive explorations executed against the real headers in /repo/code/include; '
         'see DESIGN.md. Exit 0 = held, 1 = VIOLATION, 2 = harness could not be built/run against the given tree (CANNOT-DECIDE).')

reg('C06', 'exploration', 'X (exhaustive input enumerator)', 'bounded exhaustive input enumeration vs 128-bit reference',
    'Every ordered pair of integer types is driven through the real conversion code with all 8/16-bit source values (all 2^32 values of 32-bit sources in the thorough tier) and a boundary lattice for 64-bit sources, as scalars, as arrays and as stores/loads of sandbox cells under three foreign ABIs; each result is compared with the exact mathematical value or a required abort.',
    'Trusts the compiler and the 128-bit reference predicate; 64-bit sources are boundary-complete only; X->bool (X != bool) excluded by scope decision (DESIGN.md C06).',
    'DESIGN.md section 3, C06')

reg('C15', 'model_checking', 'H (explicit-state / history explorer)', 'explicit-state BFS on the real token table + history BFS on owner objects, lock-step reference model',
    'The complete reachable state space (used-set x cursor) of the real app_pointer_map<uint8_t> is explored for every limit 1..12 (1..15 thorough) with every get/remove/lookup transition checked against a reference map; full-minus-two-holes families cover limits up to 254 and 32/64-bit tokens; owner objects (move, overwrite, destroy, unregister, store/load) are explored by BFS over histories on an 8-bit mbox sandbox from seeds that make exhaustion reachable.',
    'State key drops pointer values (table never branches on them). Complete state spaces only up to limit 12/15; larger limits by structured families. Histories end at the first abort.',
    'DESIGN.md section 3, C15')

reg('C05', 'exploration', 'X (exhaustive input enumerator)', 'bounded exhaustive input enumeration vs exact 128-bit reference',
    'Every arithmetic form on tainted pointers is executed for every element-aligned base address of a 64 KiB foreign-ABI sandbox (and null), for 11 pointee types whose guest size differs from the host size, with n drawn from every integer type (boundary-directed values incl. products beyond 2^32/2^64), as plain, tainted and tainted_volatile operands; each result is compared with the exact address p +- n*s_guest or a required abort.',
    'Guest sizes come from a hand-written layout table; bases are exhaustive only on the 16-bit instance (32-bit instance: boundary bases); aborts observed via the custom-abort flag.',
    'DESIGN.md section 3, C05')

reg('C17', 'exploration', 'X (exhaustive input enumerator)', 'bounded exhaustive input enumeration vs mathematical-integer reference',
    'Indexing of tainted and tainted_volatile fixed-size arrays (lengths 1..16, 2-D shapes, 7 element types whose guest size differs from the host) is executed with every value of every 8/16-bit index type and boundary/aliasing values of 32/64-bit index types, plain and wrapped; abort iff out of range, otherwise exact element address under the right layout and a canary-checked store.',
    'Aborts observed via the custom-abort flag; wider index types are boundary/aliasing-complete, not value-complete.',
    'DESIGN.md section 3, C17')

reg('C16', 'exploration', 'X (exhaustive input enumerator, differential)', 'bounded exhaustive differential enumeration against the plain C++ expression',
    'Every operator RLBox offers on numeric wrappers is instantiated for every wrapper combination and operand type pair and evaluated on all 65536 value pairs of 8-bit operands and a boundary set otherwise; the wrapped expression must have the documented wrapper type over decltype(plain expression), a bit-identical value and identical operand updates. Undefined plain cases are removed by an exact reference predicate.',
    'Plain C++ semantics are taken from the same compiler; only combinations that compile are compared (per-operator rebuild fallback when a tree stops offering one); floats on finite boundary values only.',
    'DESIGN.md section 3, C16')

reg('C03', 'model_checking', 'H (explicit-state, inductive invariant over all states)', 'explicit-state inductiveness check: all states x all transitions on the real code',
    'All states (pointee type, address) of a 64 KiB foreign-ABI sandbox plus null are enumerated and every pointer-producing operation is executed from each of them; each successor must be null or inside the own region or the step must abort. All 2^16 guest representations are driven through nine pointer-carrying positions (all 2^32 through the cell position in the thorough tier), plus allocation answers and app pointers, with two instances live.',
    'Explores a superset of the reachable states (every state satisfying the invariant). Membership is mbox\'s region; production backends with smaller committed memory are represented by the 32-bit instance only.',
    'DESIGN.md section 3, C03')

reg('C04', 'model_checking', 'X + H (input enumerator + history explorer)', 'bounded exhaustive enumeration of offsets/positions + exhaustive create/destroy histories on the real code',
    'Every offset of a 64 KiB sandbox and null goes through both translation paths and twenty pointer-carrying positions with the guest-side bytes inspected; all create/destroy histories of three sandbox objects up to depth 5/7 (all 16 ordered live-lists) are executed and in each state every live instance must translate data and function pointers relative to itself, in mask mode and in registry mode (unaligned region, RLBox\'s own finder on the hot path).',
    'Three instances; offset 0 (representation 0 = null) excluded from the address round trip; the 32-bit instance is covered on a boundary lattice.',
    'DESIGN.md section 3, C04')

reg('C07', 'exploration', 'X (exhaustive input enumerator)', 'bounded exhaustive enumeration vs reference encoder/decoder, whole-region byte diff, guard-page faults',
    'Stores and seven load paths are executed for every supported type class at every alignment in the first and last bytes of a 64 KiB foreign-ABI region (objects ending on the last byte, PROT_NONE page behind) and a stride through the interior, for boundary values and three background patterns; after each store the entire region is compared with the reference image, each load with the reference decoding.',
    'Reference codec and layout table are hand-written for lp32/16-bit pointers; interior addresses by stride; little-endian only.',
    'DESIGN.md section 3, C07')

reg('C10', 'exploration', 'X (exhaustive input enumerator)', 'bounded exhaustive enumeration vs three-valued 128-bit interval model, whole-region byte diff, guard-page faults',
    'Eleven bulk operations are executed over the product of start classes (null, first/last bytes, interior, application arena abutting guard pages, other sandbox, same sandbox), an extent lattice from 0 to 2^64-1 (incl. counts whose byte size wraps 2^64), six element types and six size-operand forms; each outcome is judged by an exact interval model (must-abort / must-proceed-on-exactly-these-bytes / null / unconstrained) and a byte diff of both sandboxes and the arena.',
    'Start addresses are classes; mbox has no grant/deny support so the copy branches are the ones exercised; allocations above 1 MiB are refused by the harness.',
    'DESIGN.md section 3, C10')

reg('C09', 'model_checking', 'A (adversary interleaver over hooked read points)', 'exhaustive enumeration of adversary schedules (deviation-bounded) on the real code',
    'The sandbox-as-adversary may rewrite its memory before any of RLBox\'s hooked reads of sandbox memory and when the verifier starts; every script of at most 2 (3) such events over 7 mutation kinds is executed for every copy_and_verify variant, element type and source placement (including objects ending on the last byte of the region). The verifier\'s object must lie outside every sandbox, hold only values the source held before the verifier started, survive a full overwrite of the region, and strings must be terminated within the range-checked length.',
    'Adversary acts at read granularity (hook points in /repo, guard ALLENABY_RLBOX_VERIF); bulk reads are atomic; hardware memory ordering is not modelled.',
    'DESIGN.md section 3, C09')

reg('C13', 'model_checking', 'H (history explorer with replay + reference model)', 'BFS over operation histories replayed on the real objects, lock-step reference set model',
    'All ownership histories over 3 owners x 3 functions x 32 operations (incl. destroy/re-create of the sandbox) are explored breadth-first to depth 4/5 with deduplication on model + implementation state, from seeds that put the backend table at 0, n-2, n-1 and n registrations; after every step the owners\' view, the entry points, the backend table, real guest calls through every entry point and registration probes are compared with the reference set model, on mbox, noop and (thorough) dylib.',
    'Depth-bounded; one sandbox object per history; private tables are read through -fno-access-control; a violated state is not expanded further.',
    'DESIGN.md section 3, C13')

reg('C14', 'model_checking', 'H (history explorer with replay + reference state machine)', 'BFS over lifecycle histories replayed on the real objects, lock-step reference state machine',
    'All lifecycle histories over three sandbox objects and 21 operations (create ok with two libraries / create fail / destroy / register / end owner / invoke by name) are explored breadth-first to depth 6/8 with deduplication; in every state the live list, the finder, allocation, free, app pointers, example-based data- and function-pointer translation and registration probes are compared with a reference state machine.',
    'mbox model backend (bool create, by-name lookup, registry membership); depth-bounded; objects whose create failed are unconstrained; private list/caches are read through -fno-access-control.',
    'DESIGN.md section 3, C14')

reg('C19', 'fault_enumeration', 'T (call-tree and fault-position enumerator)', 'exhaustive enumeration of call trees x fault positions on the real code, log compared with a generated well-nested word',
    'Every invocation/callback tree of depth <= 3 and width <= 2 over two sandboxes is executed with no fault and with an abort injected at every argument-conversion, callback-body and result-conversion position (pairs in the thorough tier); the transition-hook log, the record payloads and the timing vectors are compared with the word a pure walk of the tree prescribes.',
    'mbox model backend under two ABIs (each realises three of the five conversion-fault kinds); aborts observed as exceptions; depth/width bounded.',
    'DESIGN.md section 3, C19')

reg('C12', 'model_checking', 'H + T (history explorer + call-tree enumerator)', 'fixpoint exploration of registration histories + exhaustive call trees on the real code, log compared with a reference walk',
    'Register/unregister histories over six callbacks are explored to the fixpoint of the slot assignment and in every state every registered callback is invoked from guest code with boundary values; all call trees of depth <= 3 / width <= 2 over two sandboxes are executed and the application-side log (function, sandbox reference, arguments) and the guest-side results are compared with a pure walk of the tree; six configurations (mbox lp32/wide, noop and dylib x library/embedder TLS).',
    'Depth/width bounded; bundled backends are exercised at 63/64 table occupancy rather than through full histories.',
    'DESIGN.md section 3, C12')

reg('C11', 'model_checking', 'G + X + H (generated signature family + history explorer)', 'exhaustive enumeration of a generated signature family x argument forms x boundary values with guest-side recording + BFS over instance/library histories',
    'About 580 (quick) / 1700 (thorough) generated signatures over 20 parameter kinds are invoked under two foreign ABIs with every argument form and boundary value; guest code written against an independent ABI table records the raw bits it receives, the call count and the executing instance; results are driven from the guest with boundary bit patterns. Histories over three instances bound to two libraries exporting the same names (mbox by-name, dylib) check that names resolve per instance and per incarnation and that function addresses are stable and pass back faithfully.',
    'Signature shapes beyond two parameters by rotation; the generator\'s ABI table and reference struct images are hand-written; history depth 5/6.',
    'DESIGN.md section 3, C11')

ENGINES.append(dict(name='G', path='lib/gengine.py', serves_properties=['C01', 'C02', 'C20'],
                    kind_free_text='program-grid / type-graph explorer: one probe program per (state, form) compiled against the tree under test with a precompiled prelude; the compiler is the transition function'))

reg('C01', 'model_checking', 'G (type-graph explorer, compiler as transition function)', 'explicit-state exploration of the wrapper type graph: every (state, form) probe compiled against the real headers, accepted probes classified by static_assert traits',
    'The graph whose states are (wrapper, C++ type) is explored with ~170 (quick) / ~330 (thorough) forms per state - every operator with every operand class, indexing, dereference, address-of, RLBox casts, opaque conversion and 43 conversion contexts - one real compilation per edge with RLBox\'s compile-time checks ON. A plain type may be reached only through a named unwrapper or a null test of a tainted pointer; comparisons involving sandbox memory must be exactly hints; hints are not verifiable; tainted_opaque has no operation.',
    'Finite grammar of forms; explicit type punning is outside the alphabet; g++ primary, clang++ repeats the conversion contexts in the thorough tier.',
    'DESIGN.md section 3, C01')

reg('C02', 'model_checking', 'G + X (program grid + exhaustive address enumeration)', 'exhaustive grid of sink x source programs judged by the real compiler (with positive controls) + exhaustive address sweep of the run-time entry points',
    'Every store / initialisation / call / registration shape of the grid (raw pointers, const pointers, raw function pointers, arrays of raw pointers, wrappers of another sandbox type, plain structs, lambdas, functors, 18 malformed callback signatures) is compiled against the real headers with compile checks ON and must be rejected, while positive controls of the same shapes must compile; assign_raw_pointer (both wrappers) and UNSAFE_accept_pointer are executed for every address of the sandbox region +-4 KiB, null, the other live instance and application memory in mask and registry modes.',
    'Finite shape grammar; g++ (clang++ repeated in the thorough tier).',
    'DESIGN.md section 3, C02')

reg('C20', 'exploration', 'G + X (cast acceptance grid + exhaustive value enumeration)', 'compile-probe grid over cast x wrapper x type pairs + bounded exhaustive differential evaluation of every accepted cast and of the opaque round trip',
    'Every (cast, wrapper, source type, target type) combination is a probe program: accepted casts must return exactly tainted<Target> and correspond to a well-formed C++ cast; each accepted cast is executed on boundary values (for pointers: the first/last 256 offsets and a stride through a 64 KiB sandbox) and compared bit for bit with the plain C++ cast, designated address and guest representation unchanged; from_opaque(to_opaque(t)) is compared byte for byte for every supported type.',
    'Value domains are boundary lattices for wide types; floating sources restricted to values with defined conversions; opaque arguments/results are covered under C11/C12.',
    'DESIGN.md section 3, C20')

reg('C08', 'exploration', 'G + X (generated struct family + exhaustive value selections)', 'bounded exhaustive enumeration of a generated struct family x boundary value selections against an independent guest layout, fork isolation for noexcept aborts',
    'Every field-kind sequence of length 1-2 (1-3 plus a reduced length-4 family in the thorough tier) over 17 field kinds and long rotated structs is generated with RLBox\'s reflection macros, an independently declared fixed-width guest struct and offsets computed by the generator\'s own layout routine, under two foreign ABIs; size, alignment and every field offset are compared three ways, and every selection of boundary values is loaded, stored, passed and returned by value with field-by-field comparison; unrepresentable field values must abort.',
    'Guest layouts and the layout routine are written by hand for lp32/wide with 16-bit pointers; structs with const fields only field-wise (RLBox offers no whole-struct paths for them).',
    'DESIGN.md section 3, C08')

ENGINES.append(dict(name='S', path='harness/sched.hpp', serves_properties=['C18'],
                    kind_free_text='preemption-bounded cooperative scheduler over real OS threads; scheduling points at RLBox shared-lock operations (custom lock type) and harness yields; vector-clock race check on annotated accesses; one forked process per schedule'))

reg('C18', 'model_checking', 'S (preemption-bounded scheduler, stateless exploration of the implementation)', 'stateless model checking of the real code: exhaustive enumeration of thread schedules up to a preemption bound under a controlled scheduler, vector-clock race check',
    'Every schedule of 2 and 3 threads (each creating, using, destroying and re-creating its own sandbox, with callbacks and nested invocations) with at most 2 preemptions (3 for two threads in the thorough tier) is executed on the real code, one forked process per schedule; each thread must observe exactly what it observes alone, without deadlock, crash or a happens-before race on the process-wide sandbox list; mbox in registry mode (list on the hot path) and the bundled noop backend (thread_local record).',
    'Scheduling points only at RLBox lock operations and harness yields; unannotated unsynchronised accesses are left to the free-running ThreadSanitizer supplement (thorough, not deciding); weak memory not modelled; fixed scripts, <= 3 threads.',
    'DESIGN.md section 3, C18')
