META = dict(
    level='exploration',
    rule=('cases = (wrapper, element type, shape/length, index type, index wrapper, index value); wrappers tainted<T[N]> (application layout) and '
          'tainted_volatile<T[N]> (guest layout, mbox lp32 memory); N = 1..16 for int and char, {1,2,3,8,16} for short/long/long long/int*/double and (also under a build with 64-bit guest pointers) unsigned short/unsigned/unsigned long/unsigned long long/int*, long arrays char[129/200/256/300/32769/40000] and long[200] (lengths a bounds check done in the width of an 8- or 16-bit index would let through; abort and address only); shapes '
          '2x3 and 3x2; 10 index types; every 8/16-bit index value, boundary + aliasing values (2^8+i, 2^16+i, 2^31+i, 2^32+i, 2^33+i, 2^63+i, negatives) '
          'for 32/64-bit (thorough: every index in [-300, 8*len+300] and 2^k+i, -2^k+i, 2^k-1-i for every k in 3..64); plain, tainted and tainted_volatile indices. Oracle: abort iff idx<0 or idx>=len, else element address = start + idx*elem_size '
          'of that layout and a store through it changes only that element (canaries). non-trivial = out-of-range index. Plus a build-configuration partition on the bundled noop backend: 7 ways a failed check is reported (abort(), -fno-exceptions, RLBOX_USE_EXCEPTIONS with and without compiler exceptions, custom abort handler with and without, -O2) x 7 index types x 19 values x {application, sandbox memory} x {plain, tainted index} x {read, write}, each case in a forked child that must not return from an out-of-range indexing expression.'),
    assumptions=['aborts observed through RLBOX_CUSTOM_ABORT flag', 'arrays of structs in sandbox memory do not compile in RLBox and are absent'],
)


def run(ctx):
    specs = [('c17_' + k.lower(), 'c17.cpp', dict(opt='-O1', defs=['C17_' + k])) for k in 'ABCDE']
    # unsigned element types and pointers, 16-bit and pointer-wide (64-bit) guest pointers
    specs.append(('c17_f', 'c17.cpp', dict(opt='-O1', defs=['C17_F'])))
    specs.append(('c17_f_p64', 'c17.cpp', dict(opt='-O1', defs=['C17_F', 'C17_PTR=uint64_t'])))
    bins = ctx.build_many(specs)
    for k in ['a', 'b', 'c', 'd', 'e', 'f', 'f_p64']:
        ctx.run(bins['c17_' + k], ['--thorough'] if ctx.thorough else [])
    # the ways a failed check can be reported: in every one of them an out-of-range index must not return
    cfgs = [('default', [], []), ('noexc', [], ['-fno-exceptions']), ('useexc', ['RLBOX_USE_EXCEPTIONS'], []),
            ('useexc_noexc', ['RLBOX_USE_EXCEPTIONS'], ['-fno-exceptions']), ('custom', ['C17CFG_CUSTOM'], []),
            ('custom_noexc', ['C17CFG_CUSTOM'], ['-fno-exceptions']), ('default_O2', [], ['-O2'])]
    cb = ctx.build_many([('c17cfg_' + n, 'c17cfg.cpp', dict(opt='-O1', defs=d + ['C17CFG_NAME="%s"' % n], flags=f, link=['-ldl'])) for n, d, f in cfgs])
    for n, d, f in cfgs:
        ctx.run(cb['c17cfg_' + n], [], parts=1)
