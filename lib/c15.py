META = dict(
    level='model_checking',
    rule=('table level: explicit-state BFS over real app_pointer_map<uint8_t> objects, alphabet {get, remove(t), lookup(t)}, complete reachable '
          'state space (used set x cursor) for each limit 1..12 (15 thorough); full-minus-<=2-holes x cursor families for limits up to 254 and for '
          '32/64-bit tokens; scripted cursor-wrapping histories on 8/16/32/64-bit tokens. owner level: BFS over histories of app_pointer owners '
          '(assign onto absent/empty/live, emplace, unregister, destroy, move-assign, move-construct, store/load of the token) on an 8-bit mbox '
          'instance (limit 127) from seeds with 0/124..127 tokens already taken, replayed on fresh objects, lock-step with a reference map; two-sandbox level: BFS over 3 owners x 2 sandbox objects (get on either object, move-assign between owners also across the objects, unregister, destroy owner), after every operation every token ever issued in EACH table resolves iff a live owner holds it there. '
          'non-trivial = transitions where the reference requires an abort (exhaustion, dead token).'),
    assumptions=['pointer values are opaque to the table (state key drops them; each explored representative uses pairwise distinct pointers)',
                 'limit = token type maximum (255) is outside the stated range',
                 'a history ends at the first abort'],
)


def run(ctx):
    b = ctx.build('c15', 'c15.cpp', opt='-O1', access=True)
    args = ['--thorough'] if ctx.thorough else []
    ctx.run(b, args)
