META = dict(
    level='model_checking',
    rule=('inductive-invariant check over ALL states (pointee type, address): 10 pointee types x {null} U every address of a 64 KiB mbox region (quick: '
          'first/last 4 KiB completely, every 7th byte of the interior; thorough: all) x every pointer-producing transition (p+n p-n p+=n p-=n ++ -- &p[n] &*p '
          '&p->field, three sandbox casts, opaque round trip, store/load of a pointer cell, *pp / pp[0] with boundary representations in the cell) with n from '
          '5 integer types and boundary values; successor must be null or inside the own region (a second instance is live) or the step aborted. Plus every one '
          'of the 2^16 guest representations in 9 pointer-carrying positions (invoke result, callback argument, memory cell, array element, array-of-pointers, '
          'struct field by pointer / by value / by-value result / copy_and_verify), the raw entry points (tainted / tainted_volatile assign_raw_pointer, UNSAFE_accept_pointer) on every address within 32 bytes of either end of the own and the other live region for each pointee type, malloc environment answers (also on a base+representation backend without masking, where an answer beyond the region designates application memory or the neighbouring instance), app pointers; 32-bit instance on boundary states; an instance with a pointer-wide 64-bit base-relative representation over a 64 KiB region on all states and on boundary representations including ones that look like host addresses. '
          'plus compile probes that a tainted_volatile cannot be copied, moved or default-constructed (it must stay at its address in sandbox memory). states = states whose transitions were all executed; transitions = executed steps (each validated against the implementation).'),
    assumptions=['"inside" is decided by the mbox region; every state satisfying the invariant is explored, which over-approximates the reachable set',
                 'function pointers are excluded by the statement'],
)


# A tainted_volatile is the object AT an address in sandbox memory: its own address is the example for context-free pointer
# translation and the result of operator&. If it could be copied or moved, the copy would live in application memory and
# every pointer obtained from it (conversion to tainted, &v, arithmetic) would be outside the sandbox. Must not compile.
VOLATILE_PROBES = [
    ('copy-init from *pp', 'auto v = *pp; (void)v;'),
    ('copy-init from p->field', 'auto v = ps->p; (void)v;'),
    ('copy-init of an int cell', 'auto v = *pi; (void)v;'),
    ('move-init', 'auto v = std::move(*pp); (void)v;'),
    ('by-value parameter', 'auto f = [](tv<int*> v) { (void)v; }; f(*pp);'),
    ('is_copy_constructible<tainted_volatile<int*>>', 'static_assert(!std::is_copy_constructible_v<tv<int*>>, "VERIF_COPYABLE");'),
    ('is_move_constructible<tainted_volatile<int*>>', 'static_assert(!std::is_move_constructible_v<tv<int*>>, "VERIF_COPYABLE");'),
    ('is_copy_constructible<tainted_volatile<int>>', 'static_assert(!std::is_copy_constructible_v<tv<int>>, "VERIF_COPYABLE");'),
    ('is_default_constructible<tainted_volatile<int*>>', 'static_assert(!std::is_default_constructible_v<tv<int*>>, "VERIF_COPYABLE");'),
    ('is_copy_constructible<tainted_volatile<struct>>', 'static_assert(!std::is_copy_constructible_v<tv<VS>>, "VERIF_COPYABLE");'),
    ('is_copy_constructible<tainted_volatile<int*[3]>>', 'static_assert(!std::is_copy_constructible_v<tv<int* [3]>>, "VERIF_COPYABLE");'),
]
VOLATILE_PRE = 'void probe(tn<int**>& pp, tn<VS*>& ps, tn<int*>& pi)\n{\n  %s\n}\n'


def volatile_probes(ctx):
    from gengine import G
    import json
    g = G(ctx, 'g03')
    jobs = [((n,), VOLATILE_PRE % code) for n, code in VOLATILE_PROBES]
    # positive control: the same statements by reference compile
    jobs.append((('control: reference to *pp',), VOLATILE_PRE % 'auto& v = *pp; tn<int*> t = v; (void)t;'))
    res = g.probe_many(jobs)
    r = ctx.result
    for (n,), (acc, diag, path) in res.items():
        if n.startswith('control'):
            if not acc:
                r.viols.append(dict(sig='C03 step=volatile-probe-control kind=rejected', case=json.dumps(dict(name=n)), detail='positive control no longer compiles: ' + diag[:200], noreplay=True))
        elif n.startswith('is_'):
            # trait probes are static_asserts of the negation: they must COMPILE
            if not acc:
                r.viols.append(dict(sig='C03 step=tainted_volatile-leaves-sandbox-memory kind=constructible', case=json.dumps(dict(name=n)),
                                    detail='%s holds: a tainted_volatile object can be created outside sandbox memory (%s)' % (n, diag[:120]), noreplay=True))
        elif acc:
            r.viols.append(dict(sig='C03 step=tainted_volatile-leaves-sandbox-memory kind=compiles', case=json.dumps(dict(name=n)),
                                detail='%s compiles: a tainted_volatile object can exist outside sandbox memory, so pointers derived from it are not confined' % n, noreplay=True))
    r.stat['programs'] = len(jobs)
    ctx.extra_cov['programs'] = len(jobs)


def run(ctx):
    volatile_probes(ctx)
    specs = [('c03_mask16', 'c03.cpp', dict(opt='-O1')),
             ('c03_reg16', 'c03.cpp', dict(opt='-O1', defs=['C03_MODE=REGISTRY', 'C03_TYPES=char, long, VS'])),
             ('c03_mask32', 'c03.cpp', dict(opt='-O1', defs=['C03_PTR=uint32_t', 'C03_TYPES=char, long, int*, VS'])),
             ('c03_mask64', 'c03.cpp', dict(opt='-O1', defs=['C03_PTR=uint64_t', 'C03_LOG=16', 'C03_TYPES=char, long, int*, VS'])),
             # base + representation backend (no masking), 32-bit representations over a 64 KiB region: only the allocation partition
             ('c03_unconf32', 'c03.cpp', dict(opt='-O1', defs=['C03_PTR=uint32_t', 'C03_LOG=16', 'MBOX_UNCONFINED', 'C03_TYPES=char, long, VS']))]
    bins = ctx.build_many(specs)
    a = ['--thorough'] if ctx.thorough else []
    ctx.run(bins['c03_mask16'], a)
    ctx.run(bins['c03_reg16'], a)
    ctx.run(bins['c03_mask32'], a)
    ctx.run(bins['c03_mask64'], a)
    ctx.run(bins['c03_unconf32'], a + ['--what', 'env'], parts=1)
    if ctx.thorough:
        ctx.run(bins['c03_mask32'], a + ['--sweep32', '--what', 'positions'])
