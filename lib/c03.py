META = dict(
    level='model_checking',
    rule=('inductive-invariant check over ALL states (pointee type, address): 10 pointee types x {null} U every address of a 64 KiB mbox region (quick: '
          'first/last 4 KiB completely, every 7th byte of the interior; thorough: all) x every pointer-producing transition (p+n p-n p+=n p-=n ++ -- &p[n] &*p '
          '&p->field, three sandbox casts, opaque round trip, store/load of a pointer cell, *pp / pp[0] with boundary representations in the cell) with n from '
          '5 integer types and boundary values; successor must be null or inside the own region (a second instance is live) or the step aborted. Plus every one '
          'of the 2^16 guest representations in 9 pointer-carrying positions (invoke result, callback argument, memory cell, array element, array-of-pointers, '
          'struct field by pointer / by value / by-value result / copy_and_verify), malloc environment answers, app pointers; 32-bit instance on boundary states; an instance with a pointer-wide 64-bit base-relative representation over a 64 KiB region on all states and on boundary representations including ones that look like host addresses. '
          'states = states whose transitions were all executed; transitions = executed steps (each validated against the implementation).'),
    assumptions=['"inside" is decided by the mbox region; every state satisfying the invariant is explored, which over-approximates the reachable set',
                 'function pointers are excluded by the statement'],
)


def run(ctx):
    specs = [('c03_mask16', 'c03.cpp', dict(opt='-O1')),
             ('c03_reg16', 'c03.cpp', dict(opt='-O1', defs=['C03_MODE=REGISTRY', 'C03_TYPES=char, long, VS'])),
             ('c03_mask32', 'c03.cpp', dict(opt='-O1', defs=['C03_PTR=uint32_t', 'C03_TYPES=char, long, int*, VS'])),
             ('c03_mask64', 'c03.cpp', dict(opt='-O1', defs=['C03_PTR=uint64_t', 'C03_LOG=16', 'C03_TYPES=char, long, int*, VS']))]
    bins = ctx.build_many(specs)
    a = ['--thorough'] if ctx.thorough else []
    ctx.run(bins['c03_mask16'], a)
    ctx.run(bins['c03_reg16'], a)
    ctx.run(bins['c03_mask32'], a)
    ctx.run(bins['c03_mask64'], a)
    if ctx.thorough:
        ctx.run(bins['c03_mask32'], a + ['--sweep32', '--what', 'positions'])
