META = dict(
    level='exploration',
    rule=('cases = (form, pointee type, base, n type, n value, operand wrapper, pointer wrapper); forms p+n p-n p+=n p-=n ++p p++ --p p-- p[n] &p[n], and n+p (which the library defines as p+n); '
          'pointees char short int long longlong double int* long* int[4] long[3] long[2][3] char[3][2] int*[2][2] const long[4] const char[5] struct; bases = every element-aligned address of a 64 KiB mbox region '
          '(lp32 ABI, 16-bit pointers) plus unaligned ends and null; n over 10 integer types with values {-4..4, n that put the exact target 0,+-1,+-2 '
          'elements around region start/end, type extrema, floor/ceil(2^k/s)+-1 for k=16,31,32,63,64}; plain operands on every base, tainted / '
          'tainted_volatile operands and tainted_volatile pointers on boundary bases (all bases in thorough); mask and registry membership modes; '
          '32-bit instance on boundary bases; an instance with a pointer-wide 64-bit base-relative representation over a 64 KiB region on every base. Oracle: E = p +- n*s_guest in 128-bit arithmetic with s_guest from a hand-written layout table: inside => '
          'returns exactly E, otherwise abort; null => abort. non-trivial = |n| > 4 or null base.'),
    assumptions=['aborts observed through RLBOX_CUSTOM_ABORT flag (operations are pure)',
                 'offset 0 of the region has guest representation 0 = null; cases whose result would be stored as representation 0 in a pointer cell are unconstrained',
                 'post-increment/decrement of a tainted_volatile pointer and unary & of a non-const struct tainted_volatile do not compile and are absent'],
)

GROUPS = [('a', 'char, short, long'), ('b', 'int, long long, double'), ('c', 'int*, long*, VS'), ('g', 'VT'), ('d', 'int[4], long[3]'), ('e', 'long_2x3, char_3x2, intp_2x2'), ('f', 'clong_4, cchar_5')]


def run(ctx):
    specs = []
    for g, types in GROUPS:
        specs.append(('c05_mask16_' + g, 'c05.cpp', dict(opt='-O1', defs=['C05_TYPES=' + types])))
    specs.append(('c05_reg16', 'c05.cpp', dict(opt='-O1', defs=['C05_TYPES=char, long, int*', 'C05_MODE=REGISTRY'])))
    specs.append(('c05_mask32', 'c05.cpp', dict(opt='-O1', defs=['C05_TYPES=char, long, VS, VT', 'C05_PTR=uint32_t'])))
    specs.append(('c05_mask64', 'c05.cpp', dict(opt='-O1', defs=['C05_TYPES=char, long, int*, VS', 'C05_PTR=uint64_t', 'C05_LOG=16'])))
    bins = ctx.build_many(specs)
    args = ['--thorough'] if ctx.thorough else []
    for g, _ in GROUPS:
        ctx.run(bins['c05_mask16_' + g], args)
    ctx.run(bins['c05_reg16'], args)
    ctx.run(bins['c05_mask32'], args)
    ctx.run(bins['c05_mask64'], args)
