"""C02 — application pointers and foreign-sandbox data cannot enter a sandbox unchecked.
(a) engine G: a grid of store / initialisation / call / registration shapes that must be rejected by the compiler, plus
positive controls of the same shapes that must be accepted; (b) engine X: the run-time entry points over all addresses."""
import json
import os

from gengine import G

META = dict(
    level='model_checking',
    rule=('(a) grid programs = sink x source: sinks {tainted<T*> copy/direct/list initialisation and assignment, tainted_volatile<T*> assignment through *pp, pp[i], a struct '
          'field and an array-of-pointers cell, invoke argument, by-value struct argument, tainted<Fn> from sandbox_callback, tainted_volatile<Fn> from a callback / '
          'sandbox function address of another signature} x sources {raw T*, const T*, raw function pointer, array / std::array of raw pointers, tainted / opaque / '
          'callback of ANOTHER sandbox type, plain struct holding a pointer, lambda, functor}; raw pointers as OPERANDS of operators that return a tainted pointer (n + raw, raw + n, n - raw, p + raw, p - raw, p += raw with n a tainted / tainted_volatile integer; 25 shapes, 2 positive controls); register_callback with 27 malformed signatures (no sandbox parameter, '
          'sandbox by value / pointer / const ref, plain parameter in each position, array parameter, tainted_volatile parameter, plain / hint return, references to tainted / tainted_opaque as parameter and return, tainted and tainted_opaque wrappers of another '
          'sandbox type as parameter and as return). Every program is compiled against the model backend twice (16-bit and pointer-wide 64-bit pointer representation) and must be rejected by the compiler with RLBox compile checks ON; positive controls of the same shapes with legal sources must be '
          'accepted. (b) assign_raw_pointer on tainted and tainted_volatile and UNSAFE_accept_pointer for every address of [base-4096, base+64KiB+4096), null, the other '
          'live instance, stack/heap/code and aliasing addresses, mask and registry modes: abort iff outside, exact value otherwise. states = grid programs + 1, '
          'transitions = programs compiled + run-time evaluations.'),
    assumptions=['finite shape grammar', 'mixing instances of the same sandbox type is not part of the statement'],
)

PRE = '''void probe(sbx_t& sb, tn<int*>& tgood, tn<int**>& pp, tn<VS*>& ps, tn<int (**)(long)>& pf, tn<int* (*)[3]>& pa, int* raw, const int* craw,
           int (*rawfn)(long), int* (&rawarr)[3], std::array<int*, 3>& rawstd, tn2<int*>& other_t, to2<int*>& other_o, scb2<int (*)(long)>& other_cb,
           scb<int (*)(long)>& cb_ok, scb<long (*)(int)>& cb_othersig, VS& plainstruct, tn<VS>& tstruct, to<int*>& opq, tn2<VS>& other_struct, tn2<int>& other_int,
           tn<char* [3]>& chararr3, tn<int (*(*)[2])(long)>& pfa, tn<long (*[2])(int)>& fnarr_other, tn<int (*[2])(long)>& fnarr_ok,
           void* rawv, const void* crawv, char* rawc, VS* raws, int** rawpp, tn<void**>& ppv, tn<const void**>& ppcv, tn<char**>& ppc, tn<VS**>& pps, tn<int***>& ppp)
{
  %s
}
'''

BAD_PTR_SOURCES = {'raw T*': 'raw', 'raw const T*': 'craw', 'tainted of another sandbox type': 'other_t', 'opaque of another sandbox type': 'other_o'}
PTR_SINKS = {
    'tainted copy-init': 'tn<int*> t = %s; (void)t;',
    'tainted direct-init': 'tn<int*> t(%s); (void)t;',
    'tainted list-init': 'tn<int*> t{%s}; (void)t;',
    'tainted assignment': 'tn<int*> t = nullptr; t = %s;',
    'tainted_volatile *pp': '*pp = %s;',
    'tainted_volatile pp[i]': 'pp[1] = %s;',
    'struct field': 'ps->p = %s;',
    'invoke argument': 'sb.invoke_sandbox_function(g_take_ptr, %s);',
}
CONST_OK = {'tainted copy-init', 'tainted direct-init', 'tainted list-init', 'tainted assignment'}


def grid():
    neg, pos = [], []
    for sk, sc in PTR_SINKS.items():
        for nk, ne in BAD_PTR_SOURCES.items():
            neg.append(('%s <- %s' % (sk, nk), sc % ne))
        pos.append(('%s <- tainted of the same sandbox' % sk, sc % 'tgood'))
        pos.append(('%s <- nullptr' % sk, sc % 'nullptr'))
    # the same sinks for other pointee types (void, const void, char, struct, pointer): the rejection must not depend on the pointee
    for pt, src, cell in [('void*', 'rawv', 'ppv'), ('const void*', 'crawv', 'ppcv'), ('const void*', 'rawv', 'ppcv'), ('char*', 'rawc', 'ppc'),
                          ('VS*', 'raws', 'pps'), ('int**', 'rawpp', 'ppp'), ('void*', 'raw', 'ppv'), ('const void*', 'craw', 'ppcv')]:
        for sk, sc in [('copy-init', 'tn<%s> t = %s; (void)t;'), ('direct-init', 'tn<%s> t(%s); (void)t;'), ('list-init', 'tn<%s> t{%s}; (void)t;'),
                       ('assignment', 'tn<%s> t = nullptr; t = %s;')]:
            neg.append(('tainted<%s> %s <- raw %s' % (pt, sk, src), sc % (pt, src)))
        neg.append(('tainted_volatile<%s> cell <- raw %s' % (pt, src), '*%s = %s;' % (cell, src)))
        pos.append(('tainted<%s> copy-init <- nullptr' % pt, 'tn<%s> t = nullptr; *%s = t;' % (pt, cell)))
    # a raw pointer as an OPERAND: an operator must not hand back a tainted pointer made from it (n + raw, raw + n, p - raw, ...)
    for wk, decl, w in [('tainted<int>', 'tn<int> ti = 1; ', 'ti'), ('tainted<unsigned long>', 'tn<unsigned long> ti = 1; ', 'ti'),
                        ('tainted_volatile<int>', 'auto pi_ = rlbox::sandbox_reinterpret_cast<int*>(tgood); ', '(*pi_)')]:
        for ek, e in [('n + raw', '%s + raw'), ('n - raw', '%s - raw'), ('raw + n', 'raw + %s'), ('n + raw const', '%s + craw'), ('n + raw struct pointer', '%s + raws'), ('n + raw char pointer', '%s + rawc')]:
            neg.append(('operator result <- %s, n is %s' % (ek, wk), decl + 'auto t = ' + (e % w) + '; (void)t;'))
    for ek, e in [('p + raw', 'tgood + raw'), ('p - raw', 'tgood - raw'), ('p += raw', 'tgood += raw'), ('p = n + raw', 'tgood = tn<int>(1) + raw'), ('*pp + raw', '*pp + raw')]:
        neg.append(('operator result <- %s' % ek, 'auto t = (' + e + '); (void)t;'))
    pos.append(('operator result <- n + tainted pointer', 'tn<int> ti = 1; auto t = ti + tgood; (void)t;'))
    pos.append(('operator result <- tainted pointer + n', 'tn<int> ti = 1; auto t = tgood + ti; (void)t;'))
    # arrays of raw pointers
    neg.append(('array-of-pointers cell <- C array of raw pointers', '*pa = rawarr;'))
    neg.append(('array-of-pointers cell <- std::array of raw pointers', '*pa = rawstd;'))
    neg.append(('tainted<T*[3]> <- C array of raw pointers', 'tn<int* [3]> t = rawarr; (void)t;'))
    pos.append(('array-of-pointers cell <- tainted array', 'tn<int* [3]> t; t[0] = nullptr; t[1] = tgood; t[2] = nullptr; *pa = t;'))
    # (an array of DATA pointers of another pointee type - '*pa = chararr3' - is rejected by the library as well, but C02 only speaks about
    # function-pointer types, so it is not a shape of this grid)
    neg.append(('array-of-function-pointers cell <- tainted array of another signature', '*pfa = fnarr_other;'))
    pos.append(('array-of-function-pointers cell <- tainted array of the same signature', '*pfa = fnarr_ok;'))
    # the address-of-a-sandbox-function entry point names FUNCTIONS: given an application object it would wrap that object's address
    neg.append(('sandbox_function_address of an application variable', 'static int app_secret, guest_app_secret; auto t = sb.get_sandbox_function_address(app_secret); (void)t; (void)guest_app_secret;'))
    pos.append(('sandbox_function_address of a sandbox function', 'auto t = sb.get_sandbox_function_address(g_take_ptr); (void)t;'))
    # function pointers
    neg.append(('tainted<Fn> <- raw function pointer', 'tn<int (*)(long)> t = rawfn; (void)t;'))
    neg.append(('tainted_volatile<Fn> <- raw function pointer', '*pf = rawfn;'))
    neg.append(('invoke argument <- raw function pointer', 'sb.invoke_sandbox_function(g_take_fn, rawfn);'))
    neg.append(('tainted<Fn> <- sandbox_callback', 'tn<int (*)(long)> t = cb_ok; (void)t;'))
    neg.append(('tainted_volatile<Fn> <- sandbox_callback of another signature', '*pf = cb_othersig;'))
    neg.append(('tainted_volatile<Fn> <- callback of another sandbox type', '*pf = other_cb;'))
    neg.append(('invoke argument <- callback of another signature', 'sb.invoke_sandbox_function(g_take_fn, cb_othersig);'))
    neg.append(('invoke argument <- callback of another sandbox type', 'sb.invoke_sandbox_function(g_take_fn, other_cb);'))
    neg.append(('tainted_volatile<Fn> <- sandbox function address of another signature', '*pf = sb.get_sandbox_function_address(g_ret_long);'))
    neg.append(('invoke argument <- sandbox function address of another signature', 'sb.invoke_sandbox_function(g_take_fn, sb.get_sandbox_function_address(g_ret_long));'))
    pos.append(('tainted_volatile<Fn> <- matching sandbox_callback', '*pf = cb_ok;'))
    pos.append(('tainted_volatile<Fn> <- matching sandbox function address', '*pf = sb.get_sandbox_function_address(gfn);'))
    pos.append(('invoke argument <- matching sandbox_callback', 'sb.invoke_sandbox_function(g_take_fn, cb_ok);'))
    pos.append(('invoke argument <- matching sandbox function address', 'sb.invoke_sandbox_function(g_take_fn, sb.get_sandbox_function_address(gfn));'))
    # structs
    neg.append(('invoke by-value struct <- plain struct', 'sb.invoke_sandbox_function(g_take_struct, plainstruct);'))
    neg.append(('tainted_volatile<struct> <- plain struct', '*ps = plainstruct;'))
    neg.append(('tainted_volatile<struct> <- tainted struct of another sandbox type', '*ps = other_struct;'))
    neg.append(('invoke by-value struct <- tainted struct of another sandbox type', 'sb.invoke_sandbox_function(g_take_struct, other_struct);'))
    neg.append(('tainted<struct> <- tainted struct of another sandbox type', 'tn<VS> t = other_struct; (void)t;'))
    neg.append(('struct field <- tainted int of another sandbox type', 'ps->a = other_int;'))
    neg.append(('tainted_volatile<int> <- tainted int of another sandbox type', 'auto pi_ = rlbox::sandbox_reinterpret_cast<int*>(tgood); *pi_ = other_int;'))
    pos.append(('invoke by-value struct <- tainted struct', 'sb.invoke_sandbox_function(g_take_struct, tstruct);'))
    pos.append(('tainted_volatile<struct> <- tainted struct', '*ps = tstruct;'))
    # other invoke arguments
    neg.append(('invoke argument <- lambda', 'sb.invoke_sandbox_function(g_take_int, [] { return 1; });'))
    neg.append(('invoke argument <- std::string', 'std::string s; sb.invoke_sandbox_function(g_take_int, s);'))
    neg.append(('invoke argument <- tainted<int> of another sandbox type', 'tn2<int> o = 1; sb.invoke_sandbox_function(g_take_int, o);'))
    pos.append(('invoke argument <- plain int', 'sb.invoke_sandbox_function(g_take_int, 5);'))
    pos.append(('invoke argument <- tainted int', 'tn<int> v = 5; sb.invoke_sandbox_function(g_take_int, v);'))
    pos.append(('invoke argument <- opaque pointer', 'sb.invoke_sandbox_function(g_take_ptr, opq);'))
    # registration shapes: (name, declaration, must-accept)
    shapes = [
        ('no sandbox parameter', 'tn<int> f()', False),
        ('first parameter is not the sandbox', 'tn<int> f(tn<int>)', False),
        ('sandbox by value', 'tn<int> f(sbx_t, tn<int>)', False),
        ('sandbox by pointer', 'tn<int> f(sbx_t*, tn<int>)', False),
        ('sandbox by const reference', 'tn<int> f(const sbx_t&, tn<int>)', False),
        ('plain parameter (only)', 'tn<int> f(sbx_t&, int)', False),
        ('plain parameter (last)', 'tn<int> f(sbx_t&, tn<int>, int)', False),
        ('plain parameter (first)', 'tn<int> f(sbx_t&, int*, tn<int>)', False),
        ('array parameter', 'tn<int> f(sbx_t&, tn<int[4]>)', False),
        ('tainted_volatile parameter', 'tn<int> f(sbx_t&, tv<int>&)', False),
        ('plain return', 'int f(sbx_t&, tn<int>)', False),
        ('plain pointer return', 'int* f(sbx_t&)', False),
        ('hint return', 'hb_t f(sbx_t&)', False),
        ('parameter of another sandbox type', 'tn<int> f(sbx_t&, tn2<int>)', False),
        ('return of another sandbox type', 'tn2<int> f(sbx_t&)', False),
        ('opaque parameter by reference', 'tn<int> f(sbx_t&, to<int*>&)', False),
        ('opaque parameter by const reference', 'tn<int> f(sbx_t&, const to<int>&)', False),
        ('opaque parameter by rvalue reference', 'void f(sbx_t&, tn<int>, to<int>&&)', False),
        ('opaque return by reference', 'to<int*>& f(sbx_t&)', False),
        ('tainted parameter by reference', 'tn<int> f(sbx_t&, tn<int>&)', False),
        ('tainted parameter by const reference', 'tn<int> f(sbx_t&, const tn<int*>&)', False),
        ('tainted return by reference', 'tn<int>& f(sbx_t&, tn<int>)', False),
        ('const tainted parameter by value', 'tn<int> f(sbx_t&, const tn<int>)', True),
        ('opaque parameter of another sandbox type', 'tn<int> f(sbx_t&, to2<int*>)', False),
        ('opaque parameter of another sandbox type (last)', 'void f(sbx_t&, tn<int>, to2<int>)', False),
        ('opaque return of another sandbox type', 'to2<int*> f(sbx_t&)', False),
        ('opaque return of another sandbox type (with parameter)', 'to2<int> f(sbx_t&, tn<int>)', False),
        ('sandbox reference of another sandbox type', 'tn<int> f(rlbox::rlbox_sandbox<SB2>&, tn<int>)', False),
        ('well-formed int', 'tn<int> f(sbx_t&, tn<int>)', True),
        ('well-formed void', 'void f(sbx_t&)', True),
        ('well-formed opaque', 'to<int*> f(sbx_t&, to<int*>, tn<long>)', True),
        ('well-formed pointer return', 'tn<int*> f(sbx_t&, tn<VS*>)', True),
    ]
    regs = [('register_callback: ' + n, '%s;\nvoid probe_reg(sbx_t& sb) { auto cb = sb.register_callback(f); (void)cb; }\n' % d, ok) for n, d, ok in shapes]
    # lambda / functor registration
    regs.append(('register_callback: lambda', 'void probe_reg(sbx_t& sb) { auto cb = sb.register_callback([](sbx_t&, tn<int> a) { return a; }); (void)cb; }\n', False))
    regs.append(('register_callback: functor', 'struct Fun { tn<int> operator()(sbx_t&, tn<int> a) { return a; } };\nvoid probe_reg(sbx_t& sb) { Fun fn; auto cb = sb.register_callback(fn); (void)cb; }\n', False))
    return neg, pos, regs


def run(ctx):
    g = G(ctx, 'g02')
    neg, pos, regs = grid()
    jobs = []
    for name, stmt in neg:
        jobs.append((('neg', name), PRE % stmt))
    for name, stmt in pos:
        jobs.append((('pos', name), PRE % stmt))
    for name, prog, ok in regs:
        jobs.append((('pos' if ok else 'neg', name), prog))
    # the grid is compiled against the model backend with a 16-bit pointer representation and again with a pointer-wide
    # (64-bit) one: shortcuts in the library keyed on "same width as a host pointer" are reachable only under the second
    compilers = [('g++', g), ('g++/p64', G(ctx, 'g02p64', defs=['G_PTR_T=uint64_t']))]
    if ctx.thorough:
        try:
            compilers.append(('clang++', G(ctx, 'g02', compiler='clang++')))
            compilers.append(('clang++/p64', G(ctx, 'g02p64', compiler='clang++', defs=['G_PTR_T=uint64_t'])))
        except Exception as e:
            ctx.note('clang++ pass not available: %s' % str(e)[:100])
    r = ctx.result
    nacc = 0
    for cname, gg in compilers:
        res = gg.probe_many(jobs)
        for (pol, name), (acc, diag, path) in res.items():
            nacc += acc
            if pol == 'neg' and acc:
                r.viols.append(dict(sig='C02 part=grid shape=%s kind=accepted%s' % (name, '' if cname == 'g++' else '(%s)' % cname), case=json.dumps(dict(name=name, variant=cname)),
                                    detail='this program compiles: %s' % name, noreplay=True))
            if pol == 'pos' and not acc:
                r.viols.append(dict(sig='C02 part=grid shape=%s kind=control-rejected%s' % (name, '' if cname == 'g++' else '(%s)' % cname), case=json.dumps(dict(name=name, variant=cname)),
                                    detail='positive control no longer compiles (the grid would be vacuous): %s :: %s' % (name, diag[:160]), noreplay=True))
    r.stat['programs'] = len(jobs) * len(compilers)
    r.stat['accepted_programs'] = nacc
    r.stat['states'] = len(jobs)
    r.stat['transitions'] = len(jobs) * len(compilers)
    r.samples = [dict(shape='tainted_volatile *pp <- raw T*', program='*pp = raw;', oracle='must be rejected'),
                 dict(shape='register_callback: plain parameter (last)', program='tn<int> f(sbx_t&, tn<int>, int); sb.register_callback(f);', oracle='must be rejected'),
                 dict(shape='invoke argument <- matching sandbox_callback', oracle='positive control: must be accepted')]
    # (b) run-time entry points
    specs = [('c02_mask', 'c02.cpp', dict(opt='-O1')), ('c02_reg', 'c02.cpp', dict(opt='-O1', defs=['C02_MODE=REGISTRY'])),
             # aborts as exceptions: a refused raw pointer must not already be in the cell / the tainted when the refusal surfaces
             ('c02_exc_mask', 'c02.cpp', dict(opt='-O1', defs=['C02_EXC'])), ('c02_exc_reg', 'c02.cpp', dict(opt='-O1', defs=['C02_EXC', 'C02_MODE=REGISTRY']))]
    bins = ctx.build_many(specs)
    ctx.run(bins['c02_mask'])
    ctx.run(bins['c02_reg'])
    ctx.run(bins['c02_exc_mask'], parts=1)
    ctx.run(bins['c02_exc_reg'], parts=1)
    ctx.extra_cov['programs'] = len(jobs) * len(compilers)


def replay(ctx, rp):
    c = json.loads(rp['case']) if rp['case'].startswith('{') else None
    if c is None:
        b = ctx.build('c02_mask', 'c02.cpp', opt='-O1')
        rr = ctx.run_one(b, ['--replay', rp['case']], 300)
        if rr.viols:
            print('VIOLATION property=C02 replay=(this file)')
            return 1
        return 0
    v = c.get('variant', 'g++')
    g = G(ctx, 'g02r', compiler=v.split('/')[0], defs=['G_PTR_T=uint64_t'] if v.endswith('/p64') else [])
    neg, pos, regs = grid()
    for name, stmt in neg + pos:
        if name == c['name']:
            acc, diag, _ = g.probe(PRE % stmt)
            bad = acc if (name, stmt) in neg else not acc
            print('VIOLATION property=C02 replay=(this file)' if bad else 'replay: no violation')
            return 1 if bad else 0
    for name, prog, ok in regs:
        if name == c['name']:
            acc, diag, _ = g.probe(prog)
            bad = acc != ok
            print('VIOLATION property=C02 replay=(this file)' if bad else 'replay: no violation')
            return 1 if bad else 0
    return 0
