META = dict(
    level='model_checking',
    rule=('BFS over ownership histories, replayed on fresh objects, in lock-step with a reference set model: owners o0..o2 (optional holders), functions f0..f2, '
          'alphabet {register-assign onto absent/empty/live owner, register-construct, unregister, destroy owner, move-assign, move-construct, destroy_sandbox, '
          'create_sandbox} (32 operations), depth 4 (8 thorough) with state deduplication on (model state, core key list, backend slot assignment); seeds with the '
          'backend entry-point table holding 0, n-2, n-1, n registrations (n = 64 for noop/dylib, 4 for mbox). After every step: is_unregistered of every owner, '
          'entry points non-null and pairwise distinct, backend table == set of live owners, an actual guest call through every live entry point, and for every '
          'function a registration probe on a replayed copy. states = distinct states, transitions = executed operations.'),
    assumptions=['one sandbox object per history', 'a history ends at the first abort', 'private tables are read (never written) through -fno-access-control for the state key and the reachability observation'],
)


def run(ctx):
    gd = ctx.build_guestlibs()
    specs = [('c13_mbox', 'c13.cpp', dict(opt='-O1', access=True, defs=['BK_MBOX'])),
             ('c13_noop', 'c13.cpp', dict(opt='-O1', access=True, defs=['BK_NOOP'])),
             ('c13_dylib', 'c13.cpp', dict(opt='-O1', access=True, defs=['BK_DYLIB', 'GUEST_LIB_DIR="%s"' % gd], link=['-ldl']))]
    bins = ctx.build_many(specs)
    a = ['--thorough'] if ctx.thorough else []
    for k in ('c13_mbox', 'c13_noop', 'c13_dylib'):
        ctx.run(bins[k], a, parts=4)
