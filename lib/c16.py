META = dict(
    level='exploration',
    rule=('cases = (operator, left wrapper<A>, right wrapper<B>, a, b); 18 binary operators, 10 compound assignments, unary - ~ !, pre/post ++/--; '
          'wrappers {tainted, tainted_volatile, plain} x {plain, tainted, tainted_volatile}; (A,B) over 8 integer types (11 thorough) plus float/double/int '
          'mixes, and a plain unscoped enumeration as the non-wrapped operand of + - and the six comparisons; all 65536 value pairs when both operands are 8-bit, a ~25-value boundary set per operand otherwise; pairs for which the plain expression '
          'is undefined (signed overflow, /0, MIN/-1, bad shift) are removed by a 128-bit reference predicate. Oracle: decltype(wrapped) is the documented '
          'wrapper over decltype(plain), value bit-identical, operands updated like the plain operator (a tainted_volatile update may abort when the plain '
          'result does not fit the lp32 guest cell). non-trivial = an operand outside [0,127] or an inc/dec form.'),
    assumptions=['a combination is compared only if RLBox offers it (SFINAE probe; e.g. tainted_volatile & tainted_volatile is not offered); compound/inc/dec on tainted<A> exist only when the result type is A',
                 'implementation-defined plain behaviour (narrowing store of compound assignment, >> of negatives) is taken from the same compiler',
                 'aborts observed through RLBOX_CUSTOM_ABORT flag'],
)

I8 = ['signed char', 'unsigned char', 'short', 'unsigned short', 'int', 'unsigned', 'long', 'unsigned long long']
EXTRA = ['char', 'unsigned long', 'long long']


OPS = ['+', '-', '*', '/', '%', '^', '&', '|', '<<', '>>', '==', '!=', '<', '<=', '>', '>=', '&&', '||',
       '+=', '-=', '*=', '/=', '%=', '^=', '&=', '|=', '<<=', '>>=', 'unary/incdec']


def build_with_fallback(ctx, specs):
    """Build every TU; a TU that does not build on this tree is rebuilt once per operator, and operators whose
    instantiation does not compile are dropped (C16 only speaks about combinations that compile)."""
    import concurrent.futures as cf
    from vdriver import CannotDecide
    bins, lost = {}, set()
    failed = []

    def one(spec):
        n, src, kw = spec
        try:
            return n, ctx.build(n, src, **kw), None
        except CannotDecide as e:
            return n, None, spec
    with cf.ThreadPoolExecutor(max_workers=16) as ex:
        for n, b, sp in ex.map(one, specs):
            if b:
                bins[n] = b
            else:
                failed.append(sp)
    sub = []
    for n, src, kw in failed:
        for i, op in enumerate(OPS):
            d = list(kw.get('defs', [])) + ['C16_OPMASK=%dull' % (1 << i)]
            sub.append((('%s_op%d' % (n, i)), src, dict(kw, defs=d), op, n))

    def one2(t):
        n, src, kw, op, parent = t
        try:
            return n, ctx.build(n, src, **kw), op, parent
        except CannotDecide:
            return n, None, op, parent
    with cf.ThreadPoolExecutor(max_workers=16) as ex:
        for n, b, op, parent in ex.map(one2, sub):
            if b:
                bins[n] = b
            else:
                lost.add('%s in %s' % (op, parent))
    if failed and not bins:
        raise CannotDecide('no operator instantiation of C16 builds against ' + ctx.repo)
    return bins, lost


def run(ctx):
    types = I8 + (EXTRA if ctx.thorough else [])
    groups = [types[i:i + 4] for i in range(0, len(types), 4)]
    specs = []
    names = []
    for a in types:
        for gi, g in enumerate(groups):
            n = 'c16_%s_%d' % (a.replace(' ', ''), gi)
            d = ['C16_A=' + a, 'C16_BS=' + ', '.join(g)]
            if a == 'int' and gi == 0:
                d.append('C16_WITH_NOT')
            specs.append((n, 'c16.cpp', dict(opt='-O0', defs=d)))
            names.append(n)
    # a plain unscoped enumeration as the non-wrapped operand (two TUs: arithmetic, comparisons)
    for k in (1, 2):
        specs.append(('c16_enum%d' % k, 'c16.cpp', dict(opt='-O0', defs=['C16_A=int', 'C16_BS=int', 'C16_ENUM=%d' % k])))
        names.append('c16_enum%d' % k)
    for a, bs in (('float', 'float, double, int'), ('double', 'float, double, long'), ('int', 'float, double'), ('unsigned long long', 'float, double')):
        n = 'c16_f_%s' % a.replace(' ', '')
        specs.append((n, 'c16.cpp', dict(opt='-O0', defs=['C16_A=' + a, 'C16_BS=' + bs])))
        names.append(n)
    bins, lost = build_with_fallback(ctx, specs)
    names = list(bins)
    if lost:
        ctx.note('operators that do not compile on this tree (not offered, nothing to compare): ' + ', '.join(sorted(lost)))
    import concurrent.futures as cf
    # small binaries: run them concurrently, 4 partitions each
    def go(n):
        return ctx.run(bins[n], ['--thorough'] if ctx.thorough else [], parts=4, workers=4)
    with cf.ThreadPoolExecutor(max_workers=5) as ex:
        list(ex.map(go, names))
