"""C01 — sandbox data cannot lose its taint implicitly.  Engine G: type-graph exploration with the compiler
as transition function. States = (wrapper, C++ type); every form (operator, conversion context, member)
is one probe program; an accepted probe is classified at compile time (wrapped / plain / hint)."""
import json
import os
import time

from gengine import G

META = dict(
    level='model_checking',
    rule=('states = (wrapper, type) with wrapper in {tainted, tainted_volatile, tainted_opaque, sandbox_callback, app_pointer, tainted_boolean_hint, tainted_int_hint} and '
          'type over the base types (quick 12, thorough 27: every integer type, bool, float, double, unscoped/scoped enum, object pointers, pointer to pointer, function '
          'pointer, fixed arrays incl. 2-D and array of pointers, registered struct); transitions = forms: unary/binary/compound/increment operators with plain, nullptr, '
          'tainted, tainted_volatile, boolean-hint, int-hint and same-type right operands, plain-on-the-left forms, the null literal on the left of comparisons, indexing, dereference, address-of, RLBox casts, opaque conversion, and '
          '50 conversion contexts (the private raw accessors with and without a sandbox argument, copy/direct/list initialisation of plain variables, assignment, argument passing, return, if/while/for/do/switch/?: conditions, '
          'subscript with a wrapped index, pointer arithmetic with a wrapped offset, static/functional/C-style/reinterpret casts), and the library routines over '
          'sandbox memory (memcmp with tainted / tainted_volatile / raw operands must yield exactly tainted_int_hint; memcpy, memset, grant-access copies, invocation results stay wrapped). One probe program per (state, form), '
          'compiled against the real headers with compile checks ON; an accepted probe is classified by static_assert traits. The state set is closed under the result '
          'types (every fundamental result type is itself a state). Invariant: PLAIN is reachable only through a named unwrapper or a null test of a tainted pointer; '
          'comparisons involving tainted_volatile/hint operands yield exactly tainted_boolean_hint; hints have no copy_and_verify; tainted_opaque has no operator at all. '
          'states = (wrapper,type) pairs, transitions = probe programs compiled (each one validated against the implementation by the compiler).'),
    assumptions=['finite grammar of forms; explicit type punning (reinterpret_cast to references, memcpy, unions, varargs) is outside the alphabet',
                 'primary compiler g++ 12; the thorough tier repeats the sink forms with clang++ 14'],
)

BASE_Q = ['int', 'unsigned char', 'long', 'bool', 'double', 'UE', 'int*', 'const char*', 'int**', 'int (*)(long)', 'int[4]', 'VS']
BASE_T = BASE_Q + ['char', 'signed char', 'short', 'unsigned short', 'unsigned', 'unsigned long', 'long long', 'unsigned long long', 'float', 'SE', 'void*',
                   'long*', 'VS*', 'int[2][3]', 'int*[3]']


def is_ptr(t):
    return t.endswith('*') or t == 'int (*)(long)'


def states(tier):
    base = BASE_T if tier == 'thorough' else BASE_Q
    st = []
    for t in base:
        st.append(('tainted', t))
        if t != 'VS' or True:
            st.append(('tainted_volatile', t))
        if '[' not in t:
            st.append(('tainted_opaque', t))
    st.append(('sandbox_callback', 'int (*)(long)'))
    st.append(('app_pointer', 'int*'))
    st.append(('app_pointer', 'VS*'))
    st.append(('tainted_boolean_hint', 'bool'))
    st.append(('tainted_int_hint', 'int'))
    return st


WRAP = {'tainted': 'tn<U>', 'tainted_volatile': 'tv<U>', 'tainted_opaque': 'to<U>', 'sandbox_callback': 'scb<U>', 'app_pointer': 'app<U>',
        'tainted_boolean_hint': 'hb_t', 'tainted_int_hint': 'hi_t'}

ARITH_OPS_Q = ['+', '-', '*', '%', '&', '<<', '&&']
ARITH_OPS_T = ['+', '-', '*', '/', '%', '^', '&', '|', '<<', '>>', '&&', '||']
CMP_OPS = ['==', '!=', '<', '<=', '>', '>=']
RHS_Q = ['pi', 'pd', 'nullptr', 'ti', 'tvi', 'hi', 'y']
RHS_T = ['pi', 'pl', 'pd', 'pb', 'nullptr', 'ti', 'tvi', 'hb', 'hi', 'y']


def forms(tier):
    """list of (id, kind, code). kind: EXPR | SINK:<target class> | REJECT"""
    F = []
    th = tier == 'thorough'
    for op in ['-x', '+x', '~x', '!x', '*x', '&x', 'x++', '++x', 'x--', '--x']:
        F.append(('un:' + op, 'EXPR', 'VERIF_EXPR(%s)' % op))
    for op in (ARITH_OPS_T if th else ARITH_OPS_Q):
        for r in (RHS_T if th else RHS_Q):
            F.append(('bin:x%s%s' % (op, r), 'EXPR', 'VERIF_EXPR(x %s %s)' % (op, r)))
    for op in CMP_OPS:
        for r in (RHS_T if th else ['pi', 'nullptr', 'ti', 'tvi', 'hb', 'hi', 'y']):
            F.append(('cmp:x%s%s' % (op, r), 'CMP:' + r, 'VERIF_EXPR(x %s %s)' % (op, r)))
    for l in (['pi', 'pd', 'pp', 'pb'] if th else ['pi', 'pp']):
        for op in ((ARITH_OPS_T + CMP_OPS) if th else ['+', '-', '==', '<', '&&']):
            F.append(('lbin:%s%sx' % (l, op), 'CMP:plainleft' if op in CMP_OPS else 'EXPR', 'VERIF_EXPR(%s %s x)' % (l, op)))
    # the null literal as LEFT operand (a free operator taking nullptr_t on the left would see every wrapper kind)
    for op in (CMP_OPS if th else ['==', '!=', '<']):
        F.append(('lbin:nullptr%sx' % op, 'CMP:nullptr', 'VERIF_EXPR(nullptr %s x)' % op))
    for op in (['+', '-', '*', '/', '%', '^', '&', '|', '<<', '>>'] if th else ['+', '-', '<<']):
        for r in ['pi', 'ti']:
            F.append(('cmpd:x%s=%s' % (op, r), 'EXPR', 'VERIF_EXPR(x %s= %s)' % (op, r)))
    for r in ['pi', 'ti', 'tvi']:
        F.append(('idx:x[%s]' % r, 'EXPR', 'VERIF_EXPR(x[%s])' % r))
    F.append(('comma', 'EXPR', 'VERIF_EXPR((pi, x))'))
    F.append(('cond-value', 'EXPR', 'VERIF_EXPR(pb ? x : y)'))
    F.append(('arrow', 'EXPR', 'VERIF_EXPR(x.operator->())'))
    F.append(('to_opaque', 'EXPR', 'VERIF_EXPR(x.to_opaque())'))
    F.append(('from_opaque', 'EXPR', 'VERIF_EXPR(rlbox::from_opaque(x))'))
    F.append(('set_zero', 'EXPR', 'x.set_zero();'))
    F.append(('copy', 'EXPR', 'auto c_ = std::move(x); (void)c_;'))
    F.append(('cast:reinterpret', 'EXPR', 'VERIF_TAINTED(rlbox::sandbox_reinterpret_cast<char*>(x))'))
    F.append(('cast:static-long', 'EXPR', 'VERIF_TAINTED(rlbox::sandbox_static_cast<long>(x))'))
    F.append(('cast:static-voidp', 'EXPR', 'VERIF_TAINTED(rlbox::sandbox_static_cast<void*>(x))'))
    F.append(('cast:const', 'EXPR', 'VERIF_TAINTED(rlbox::sandbox_const_cast<U>(x))'))
    F.append(('to_tainted', 'EXPR', 'VERIF_EXPR(x.to_tainted())'))
    # library routines over sandbox memory (rlbox_stdlib.hpp) and allocation / lookup entry points: results stay wrapped; the result of a
    # comparison of sandbox memory is a hint whatever the wrapper kind of the pointer operands
    F.append(('lib:memcmp(x,y)', 'INTHINT', 'VERIF_INT_HINT(rlbox::memcmp(sb, x, y, 4u))'))
    F.append(('lib:memcmp(x,raw)', 'INTHINT', 'VERIF_INT_HINT(rlbox::memcmp(sb, x, pp, 4u))'))
    F.append(('lib:memcmp(x,y,tainted-n)', 'INTHINT', 'tn<size_t> n_ = 4; VERIF_INT_HINT(rlbox::memcmp(sb, x, y, n_))'))
    F.append(('lib:memcpy(x,y)', 'EXPR', 'VERIF_EXPR(rlbox::memcpy(sb, x, y, 4u))'))
    F.append(('lib:memcpy(x,raw)', 'EXPR', 'VERIF_EXPR(rlbox::memcpy(sb, x, pp, 4u))'))
    F.append(('lib:memset(x)', 'EXPR', 'VERIF_EXPR(rlbox::memset(sb, x, 0, 4u))'))
    F.append(('lib:grant_access', 'EXPR', 'bool ok_ = false; VERIF_EXPR(rlbox::copy_memory_or_grant_access(sb, pp, 1, false, ok_))'))
    F.append(('lib:free', 'EXPR', 'sb.free_in_sandbox(x);'))
    F.append(('lib:invoke-with-x', 'EXPR', 'VERIF_EXPR(sb.invoke_sandbox_function(g_take_ptr, x))'))
    F.append(('lib:invoke-int-with-x', 'EXPR', 'VERIF_EXPR(sb.invoke_sandbox_function(g_take_int, x))'))
    # hints must refuse verification
    F.append(('hint:copy_and_verify', 'REJECT', 'auto r_ = x.copy_and_verify([](auto v) { return v; }); (void)r_;'))
    # conversion contexts (compiles => a plain value was obtained)
    S = [('init-copy-int', 'arith', 'int v = x; (void)v;'),
         ('init-direct-int', 'arith', 'int v(x); (void)v;'),
         ('init-list-int', 'arith', 'int v{x}; (void)v;'),
         ('init-copy-long', 'arith', 'long v = x; (void)v;'),
         ('init-copy-bool', 'arith', 'bool v = x; (void)v;'),
         ('init-copy-double', 'arith', 'double v = x; (void)v;'),
         ('init-copy-U', 'U', 'UV v = x; (void)v;'),
         ('init-list-U', 'U', 'UV v{x}; (void)v;'),
         ('init-copy-voidp', 'ptr', 'void* v = x; (void)v;'),
         ('init-copy-cvoidp', 'ptr', 'const void* v = x; (void)v;'),
         ('assign-int', 'arith', 'int v = 0; v = x; (void)v;'),
         ('assign-U', 'U', 'UV v{}; v = x; (void)v;'),
         ('arg-int', 'arith', 'take_int(x);'),
         ('arg-bool', 'arith', 'take_bool(x);'),
         ('arg-double', 'arith', 'take_double(x);'),
         ('arg-voidp', 'ptr', 'take_vptr(x);'),
         ('arg-cvoidp', 'ptr', 'take_cvptr(x);'),
         ('arg-U', 'U', 'take_T<UV>(x);'),
         ('return-int', 'arith', 'auto f_ = [&]() -> int { return x; }; (void)f_;'),
         ('return-bool', 'arith', 'auto f_ = [&]() -> bool { return x; }; (void)f_;'),
         ('return-U', 'U', 'auto f_ = [&]() -> UV { return x; }; (void)f_;'),
         ('cond-if', 'cond', 'if (x) { }'),
         ('cond-while', 'cond', 'while (x) { break; }'),
         ('cond-for', 'cond', 'for (; x;) { break; }'),
         ('cond-do', 'cond', 'do { } while (x);'),
         ('cond-ternary', 'cond', '(void)(x ? 1 : 2);'),
         ('cond-not-to-bool', 'cond', 'bool v = !x; (void)v;'),
         ('cond-and-to-bool', 'cond', 'bool v = x && pb; (void)v;'),
         ('switch', 'arith', 'switch (x) { default: break; }'),
         ('subscript-with-wrapped-index', 'arith', 'int arr_[4] = { 0 }; (void)arr_[x];'),
         ('pointer-plus-wrapped', 'arith', 'int* q_ = pp + x; (void)q_;'),
         ('static_cast-int', 'arith', '(void)static_cast<int>(x);'),
         ('static_cast-bool', 'arith', '(void)static_cast<bool>(x);'),
         ('static_cast-U', 'U', '(void)static_cast<UV>(x);'),
         ('c-cast-int', 'arith', '(void)(int)x;'),
         ('c-cast-U', 'U', '(void)(UV)x;'),
         ('functional-cast-int', 'arith', '(void)int(x);'),
         ('functional-cast-U', 'U', '(void)UV(x);'),
         ('c-cast-voidp', 'ptr', '(void)(void*)x;'),
         ('reinterpret_cast-long', 'ptr', '(void)reinterpret_cast<long>(x);'),
         ('to_string', 'arith', 'auto s_ = std::to_string(x); (void)s_;'),
         ('compare-to-bool', 'arith', 'bool v = (x == y); (void)v;'),
         ('compare-int-to-bool', 'arith', 'bool v = (x == pi); (void)v;')]
    # the raw accessors the wrappers keep private (friends only): with or without a sandbox argument, value or reference
    S += [('accessor:get_raw_value()', 'accessor', 'auto v = x.get_raw_value(); (void)v;'),
          ('accessor:get_raw_sandbox_value()', 'accessor', 'auto v = x.get_raw_sandbox_value(); (void)v;'),
          ('accessor:get_raw_sandbox_value(sb)', 'accessor', 'auto v = x.get_raw_sandbox_value(sb); (void)v;'),
          ('accessor:get_raw_value_ref()', 'accessor', 'auto& v = x.get_raw_value_ref(); (void)v;'),
          ('accessor:get_sandbox_value_ref()', 'accessor', 'auto& v = x.get_sandbox_value_ref(); (void)v;'),
          ('accessor:get_raw_value(sb)', 'accessor', 'auto v = x.get_raw_value(sb); (void)v;'),
          ('accessor:data', 'accessor', 'auto& v = x.data; (void)v;')]
    for sid, cls, code in S:
        F.append(('sink:' + sid, 'SINK:' + cls, code))
    return F


def program(wrapper, t, code):
    # UV = value type usable for a plain variable (arrays decay to std::array to keep the probe well-formed)
    return ('using U = %s;\nusing UV = std::conditional_t<std::is_array_v<U>, rlbox::detail::c_to_std_array_t<U>, U>;\nusing W = %s;\n'
            'void probe(W& x, W& y, int pi, long pl, double pd, bool pb, int* pp, tn<int>& ti, tv<int>& tvi, hb_t& hb, hi_t& hi, sbx_t& sb)\n{\n  %s\n}\n'
            % (t, WRAP[wrapper], code))


NAMED_OK = set()  # named unwrappers are not in the alphabet


def judge(wrapper, t, fid, kind, accepted, diag):
    """Returns None (fine) or (kind-of-violation, detail)."""
    plain = (not accepted) and 'VERIF_PLAIN_RESULT' in diag
    not_tainted = (not accepted) and 'VERIF_NOT_TAINTED' in diag
    ptr_null_test_ok = wrapper == 'tainted' and is_ptr(t)
    if kind == 'REJECT':
        if wrapper in ('tainted_boolean_hint', 'tainted_int_hint') and accepted:
            return ('hint-verifiable', 'a hint accepts copy_and_verify')
        return None
    if wrapper == 'tainted_opaque':
        # (iv): no operator, no member except set_zero / from_opaque / copy
        if fid in ('set_zero', 'from_opaque', 'copy', 'cond-value', 'comma', 'un:&x', 'lib:invoke-with-x', 'lib:invoke-int-with-x', 'lib:grant_access', 'lib:free'):
            return None
        if accepted or plain or not_tainted:
            return ('opaque-has-operation', 'tainted_opaque accepts form %s' % fid)
        return None
    if kind == 'INTHINT':
        if (not accepted) and 'VERIF_NOT_AN_INT_HINT' in diag:
            return ('memory-comparison-result-not-a-hint', 'form %s compares sandbox memory but does not yield a tainted_int_hint' % fid)
        return None
    if kind.startswith('SINK'):
        cls = kind.split(':')[1]
        if not accepted:
            return None
        if ptr_null_test_ok and cls in ('arith', 'cond'):
            return None  # only the null-ness (operator bool of a tainted pointer) can arrive there
        return ('plain-value-obtained', 'conversion context %s compiles: a plain value is obtained without a named unwrapper' % fid)
    if kind.startswith('CMP'):
        r = kind.split(':')[1]
        involves_volatile = wrapper == 'tainted_volatile' or r in ('tvi', 'hb', 'hi') or wrapper in ('tainted_boolean_hint', 'tainted_int_hint')
        if plain:
            if ptr_null_test_ok and r == 'nullptr' and (fid[4:].startswith(('x==', 'x!=')) or fid.startswith(('lbin:nullptr==', 'lbin:nullptr!='))):
                return None
            return ('plain-comparison-result', 'comparison %s yields a plain value' % fid)
        if accepted and involves_volatile:
            return ('CHECK_HINT', None)
        return None
    # EXPR
    if plain:
        if ptr_null_test_ok and fid == 'un:!x':
            return None
        return ('plain-result', 'form %s yields a plain (unwrapped) value' % fid)
    if not_tainted:
        return ('cast-not-tainted', 'an RLBox cast does not return a tainted value')
    return None


def run(ctx):
    t0 = time.time()
    g = G(ctx, 'g01')
    st = states(ctx.tier)
    fm = forms(ctx.tier)
    jobs = []
    for (w, t) in st:
        for (fid, kind, code) in fm:
            jobs.append(((w, t, fid, kind), program(w, t, code)))
    res = g.probe_many(jobs)
    # a probe that failed with the PLAIN / NOT_TAINTED marker may ALSO have been rejected by RLBox itself (error inside
    # the operator body while the declared result type is still computable): re-probe without the classification assert
    again = [((w, t, fid, kind), program(w, t, code.replace('VERIF_EXPR(', 'VERIF_EVAL(').replace('VERIF_TAINTED(', 'VERIF_EVAL(').replace('VERIF_INT_HINT(', 'VERIF_EVAL(')))
             for ((w, t, fid, kind), (acc, diag, path)) in res.items() if (not acc) and 'VERIF_' in diag
             for (f2, k2, code) in fm if f2 == fid]
    res_again = g.probe_many(again)
    for key, (acc2, diag2, path2) in res_again.items():
        if not acc2:
            acc, diag, path = res[key]
            res[key] = (False, 'rejected: ' + diag2, path)  # RLBox / the language rejects the form itself
    # second pass: comparisons involving sandbox memory must be exactly hints
    hint_jobs = []
    viols = []
    accepted_n = 0
    edges = 0
    for key, (acc, diag, path) in res.items():
        w, t, fid, kind = key
        if acc:
            accepted_n += 1
        v = judge(w, t, fid, kind, acc, diag)
        if acc or 'VERIF_' in diag:
            edges += 1
        if v is None:
            continue
        if v[0] == 'CHECK_HINT':
            code = [c for (f, k, c) in fm if f == fid][0].replace('VERIF_EXPR', 'VERIF_HINT')
            hint_jobs.append(((w, t, fid, kind), program(w, t, code)))
        else:
            viols.append((key, v, path))
    res2 = g.probe_many(hint_jobs)
    for key, (acc, diag, path) in res2.items():
        if not acc:
            w, t, fid, kind = key
            viols.append((key, ('comparison-with-sandbox-memory-not-a-hint', 'comparison %s involves data residing in sandbox memory but does not yield a tainted_boolean_hint (%s)' % (fid, diag[:80])), path))
    if ctx.thorough:
        # the sink forms again under clang++
        try:
            g2 = G(ctx, 'g01', compiler='clang++')
            jobs2 = [(k, b) for (k, b) in jobs if k[3].startswith('SINK') or k[3] == 'REJECT']
            r3 = g2.probe_many(jobs2)
            for key, (acc, diag, path) in r3.items():
                w, t, fid, kind = key
                v = judge(w, t, fid, kind, acc, diag)
                if v and v[0] != 'CHECK_HINT':
                    viols.append((key, (v[0] + '(clang)', v[1]), path))
            ctx.result.stat['programs_clang'] = len(jobs2)
        except Exception as e:  # clang unusable on this tree: say so, g++ verdict stands
            ctx.note('clang++ pass not available: %s' % str(e)[:120])
    r = ctx.result
    r.parts = 1
    r.done = 1
    r.stat['states'] = len(st)
    r.stat['transitions'] = len(jobs) + len(hint_jobs)
    r.stat['traces'] = len(jobs) + len(hint_jobs)
    r.stat['evaluations'] = len(jobs) + len(hint_jobs)
    r.stat['nontrivial'] = accepted_n
    r.stat['accepted_programs'] = accepted_n
    r.stat['rejected_programs'] = len(jobs) - accepted_n
    r.stat['edges_to_wrapped_or_plain'] = edges
    r.samples = [dict(state='tainted<int*>', form='sink:init-copy-int', program='int v = x;', verdict='accepted: only the null test of a tainted pointer reaches a plain value (whitelisted)'),
                 dict(state='tainted_volatile<int>', form='cmp:x==pi', verdict='accepted, result type must be tainted_boolean_hint'),
                 dict(state='tainted<int>', form='sink:cond-if', program='if (x) {}', verdict='must be rejected')]
    for (w, t, fid, kind), (vk, detail), path in viols:
        body = open(path).read() if os.path.exists(path) else ''
        r.viols.append(dict(sig='C01 wrapper=%s form=%s kind=%s' % (w, fid, vk), case=json.dumps(dict(wrapper=w, type=t, form=fid)),
                            detail='%s<%s>: %s' % (w, t, detail), noreplay=True, program=body))
    ctx.extra_cov['programs'] = g.n


def replay(ctx, rp):
    c = json.loads(rp['case'])
    g = G(ctx, 'g01r')
    fm = {f: (k, code) for (f, k, code) in forms('thorough')}
    kind, code = fm[c['form']]
    acc, diag, path = g.probe(program(c['wrapper'], c['type'], code))
    v = judge(c['wrapper'], c['type'], c['form'], kind, acc, diag)
    if v and v[0] == 'CHECK_HINT':
        acc2, diag2, _ = g.probe(program(c['wrapper'], c['type'], code.replace('VERIF_EXPR', 'VERIF_HINT')))
        v = None if acc2 else ('comparison-with-sandbox-memory-not-a-hint', diag2)
    if v:
        print('VIOLATION property=C01 replay=(this file)')
        print('  detail: %s<%s> %s: %s' % (c['wrapper'], c['type'], c['form'], v[1]))
        return 1
    print('replay: no violation')
    return 0
