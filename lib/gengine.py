"""Engine G: the compiler is the transition function.

A probe is a tiny translation unit: `#include` of a precompiled prelude (RLBox over the mbox lp32 model
backend, one registered struct, compile-time checks ON) plus one function exercising one form. The
verdict is the compiler's exit status; markers in static_assert messages distinguish the harness' own
classification asserts (VERIF_...) from RLBox's rejections."""
import concurrent.futures as cf
import hashlib
import os
import re
import subprocess

from vdriver import CannotDecide, VERIF, sh


class G:
    def __init__(self, ctx, name='g', compiler='g++', prelude='g_prelude.hpp', defs=()):
        self.ctx = ctx
        self.compiler = compiler
        self.dir = os.path.join(ctx.out, name + '_' + compiler.replace('+', 'p'))
        os.makedirs(self.dir, exist_ok=True)
        self.prelude_src = os.path.join(VERIF, 'harness', prelude)
        self.flags = ['-std=c++17', '-w', '-fsyntax-only' if False else '-fsyntax-only', '-I', ctx.inc, '-I', os.path.join(VERIF, 'harness'),
                      '-DRLBOX_SINGLE_THREADED_INVOCATIONS'] + ['-D' + d for d in defs]
        self.n = 0
        self._pch()

    def _pch(self):
        # the PCH is rebuilt from the tree under test on every run
        hdr = os.path.join(self.dir, 'prelude.hpp')
        with open(hdr, 'w') as f:
            f.write('#include "%s"\n' % self.prelude_src)
        cmd = [self.compiler, '-x', 'c++-header'] + [x for x in self.flags if x != '-fsyntax-only'] + [hdr, '-o', hdr + ('.gch' if self.compiler == 'g++' else '.pch')]
        rc, so, se = sh(cmd, timeout=600)
        if rc != 0:
            raise CannotDecide('prelude does not compile against %s: %s' % (self.ctx.repo, se.strip().splitlines()[0][:300] if se.strip() else '?'))
        self.hdr = hdr

    def cmd(self, src):
        if self.compiler == 'g++':
            return [self.compiler] + self.flags + ['-include', self.hdr, src]
        return [self.compiler] + self.flags + ['-include-pch', self.hdr + '.pch', src]

    def probe(self, body, tag=''):
        """Returns (accepted: bool, first diagnostic line, path)."""
        h = hashlib.sha1(body.encode()).hexdigest()[:16]
        src = os.path.join(self.dir, 'p_%s.cpp' % h)
        with open(src, 'w') as f:
            f.write(body)
        rc, so, se = sh(self.cmd(src), timeout=300)
        self.n += 1
        diag = ''
        if rc != 0:
            m = re.search(r'error: (.*)', se)
            diag = m.group(1)[:240] if m else se.strip()[:240]
            # markers may sit deeper in the message list
            mm = re.search(r'VERIF_[A-Z_]+', se)
            if mm:
                diag = mm.group(0) + ' :: ' + diag
        else:
            os.unlink(src)
        return rc == 0, diag, src

    def probe_many(self, bodies, workers=16):
        """bodies: list of (key, body). Returns dict key -> (accepted, diag, path)."""
        out = {}
        by_body = {}
        for k, b in bodies:
            by_body.setdefault(b, []).append(k)  # identical programs are compiled once
        with cf.ThreadPoolExecutor(max_workers=workers) as ex:
            futs = {ex.submit(self.probe, b): b for b in by_body}
            for f in cf.as_completed(futs):
                for k in by_body[futs[f]]:
                    out[k] = f.result()
        return out
