META = dict(
    level='model_checking',
    rule=('H: register/unregister histories over a pool of six callbacks (three with one signature, three with distinct signatures: int/short->long, int*+long->long, '
          'VS*->opaque VS*) on a 4-slot mbox table, explored to the fixpoint of the slot assignment, a second sandbox holding other functions in the same slot '
          'numbers; in every new state every registered callback is called from guest code with boundary arguments and results (incl. results that do not fit '
          'the guest type -> abort). T: all call trees of depth <= 3 (thorough: 5; from depth 3 on the second child of a node is none or equal to the first) and width <= 2 over two sandboxes (A and B hold different functions in equal slot numbers); '
          'the application-side log must equal the prescribed sequence of (function, sandbox reference, argument), guest code must see the encoded results in '
          'the right executing instance; under noop the same trees with one callback run aborting and the enclosing callback body catching the abort. Configurations: mbox-lp32, mbox-wide, noop and dylib with library TLS and embedder TLS (at 63/64 table occupancy, with '
          're-registration churn). states = slot assignments, transitions = guest calls checked.'),
    assumptions=['calling a released entry point is a deliberate null call in the bundled backends and is not executed', 'depth <= 3 (5 thorough), width <= 2'],
)


def run(ctx):
    gd = ctx.build_guestlibs()
    specs = [('c12_mbox_lp32', 'c12.cpp', dict(opt='-O1', access=True, defs=['BK_MBOX', 'BK_ABI=abi_lp32'])),
             ('c12_mbox_wide', 'c12.cpp', dict(opt='-O1', access=True, defs=['BK_MBOX', 'BK_ABI=abi_wide'])),
             ('c12_noop', 'c12.cpp', dict(opt='-O1', access=True, defs=['BK_NOOP'])),
             ('c12_noop_etls', 'c12.cpp', dict(opt='-O1', access=True, defs=['BK_NOOP', 'BK_EMBEDDER_TLS'])),
             ('c12_dylib', 'c12.cpp', dict(opt='-O1', access=True, defs=['BK_DYLIB', 'GUEST_LIB_DIR="%s"' % gd], link=['-ldl'])),
             ('c12_dylib_etls', 'c12.cpp', dict(opt='-O1', access=True, defs=['BK_DYLIB', 'BK_EMBEDDER_TLS', 'GUEST_LIB_DIR="%s"' % gd], link=['-ldl']))]
    bins = ctx.build_many(specs)
    a = ['--thorough'] if ctx.thorough else []
    for k in ('c12_mbox_lp32', 'c12_mbox_wide'):
        ctx.run(bins[k], a, parts=8)
    for k in ('c12_noop', 'c12_noop_etls', 'c12_dylib', 'c12_dylib_etls'):
        ctx.run(bins[k], a, parts=2)
