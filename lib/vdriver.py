"""Shared driver for the rlbox model-checking checks.

A check module (lib/cNN.py) exposes
    META  = dict(level=..., rule=..., assumptions=[...])
    def run(ctx): ...   # builds harnesses with ctx.build(), runs them with ctx.run()
Harness binaries speak a line protocol on stdout:
    #STAT {"k": int, ...}          counters, summed over all partitions
    #SET  {"k": [..]}              set-valued counters (union; size reported)
    #SAMPLE {...}                  one explored case, written out
    #VIOL {"sig":..., "case":..., "detail":...}
    #DONE                          partition finished without hitting a cap
    #CAPPED {"why":...}            partition stopped early (deadline)
Exit codes of this driver: 0 held, 1 VIOLATION printed, 2 cannot decide.
"""
import concurrent.futures as cf
import hashlib
import json
import os
import shlex
import subprocess
import sys
import time

VERIF = os.path.dirname(os.path.dirname(os.path.abspath(__file__)))
NPROC = os.cpu_count() or 16


class _Bins(dict):
    """binaries by name; a variant whose build failed maps to None (Ctx.run skips it)"""

    def __missing__(self, k):
        return None


class CannotDecide(Exception):
    pass


def sh(cmd, timeout=None, env=None, cwd=None, stdin=None):
    p = subprocess.run(cmd, stdout=subprocess.PIPE, stderr=subprocess.PIPE,
                       timeout=timeout, env=env, cwd=cwd, input=stdin)
    return p.returncode, p.stdout.decode('utf-8', 'replace'), p.stderr.decode('utf-8', 'replace')


class Result:
    def __init__(self):
        self.stat = {}
        self.sets = {}
        self.samples = []
        self.viols = []
        self.done = 0
        self.capped = []
        self.parts = 0
        self.crashed = []

    def merge_line(self, line):
        if not line.startswith('#'):
            return
        tag, _, rest = line.partition(' ')
        try:
            if tag == '#STAT':
                for k, v in json.loads(rest).items():
                    self.stat[k] = self.stat.get(k, 0) + v
            elif tag == '#SET':
                for k, v in json.loads(rest).items():
                    self.sets.setdefault(k, set()).update(
                        json.dumps(x, sort_keys=True) if not isinstance(x, (str, int)) else x for x in v)
            elif tag == '#SAMPLE':
                if len(self.samples) < 400:
                    self.samples.append(json.loads(rest))
            elif tag == '#VIOL':
                self.viols.append(json.loads(rest))
            elif tag == '#DONE':
                self.done += 1
            elif tag == '#CAPPED':
                self.capped.append(json.loads(rest) if rest.strip() else {})
        except json.JSONDecodeError:
            self.crashed.append('bad protocol line: ' + line[:200])

    def absorb(self, other):
        for k, v in other.stat.items():
            self.stat[k] = self.stat.get(k, 0) + v
        for k, v in other.sets.items():
            self.sets.setdefault(k, set()).update(v)
        self.samples += other.samples
        self.viols += other.viols
        self.done += other.done
        self.capped += other.capped
        self.parts += other.parts
        self.crashed += other.crashed


class Ctx:
    def __init__(self, prop, tier, seed):
        self.prop = prop
        self.tier = tier
        self.seed = seed
        self.repo = os.environ.get('VERIF_REPO', '/repo')
        self.inc = os.path.join(self.repo, 'code', 'include')
        self.out = os.path.join(os.environ.get('VERIF_OUT_DIR') or os.path.join(VERIF, 'out'), prop)
        os.makedirs(self.out, exist_ok=True)
        self.t0 = time.time()
        dl = os.environ.get('VERIF_DEADLINE_S')
        self.deadline_s = float(dl) if dl else (170.0 if tier == 'quick' else 1500.0)
        self.result = Result()
        self.builds = {}          # name -> dict(cmd=..., bin=...)
        self.notes = []
        self.extra_cov = {}
        self.exhaustive = True
        self.thorough = tier == 'thorough'

    # ---- time -----------------------------------------------------------
    def remaining(self):
        return self.deadline_s - (time.time() - self.t0)

    # ---- building -------------------------------------------------------
    def cxx_cmd(self, src, out, defs=(), flags=(), compiler='g++', opt='-O1', std='-std=c++17',
                hooks=False, access=False, link=()):
        cmd = [compiler, std, opt, '-g0', '-w', '-pthread',
               '-I', self.inc, '-I', os.path.join(VERIF, 'harness'),
               '-DRLBOX_SINGLE_THREADED_INVOCATIONS']
        if hooks:
            cmd.append('-DALLENABY_RLBOX_VERIF')
        if access:
            cmd.append('-fno-access-control')
        for d in defs:
            cmd.append('-D' + d)
        cmd += list(flags)
        cmd += [src, '-o', out]
        cmd += list(link)
        return cmd

    def build(self, name, src, **kw):
        """Compile one harness. Returns path of the binary. Raises CannotDecide on failure."""
        if not os.path.isabs(src):
            src = os.path.join(VERIF, 'harness', src)
        out = os.path.join(self.out, name)
        cmd = self.cxx_cmd(src, out, **kw)
        rc, so, se = sh(cmd, timeout=1200)
        if rc != 0:
            log = os.path.join(self.out, name + '.build.log')
            with open(log, 'w') as f:
                f.write(' '.join(shlex.quote(c) for c in cmd) + '\n' + so + se)
            raise CannotDecide('harness %s does not build against %s (log: %s): %s'
                               % (name, self.repo, log, (se.strip().splitlines() or ['?'])[0][:300]))
        self.builds[name] = dict(cmd=cmd, bin=out, src=src)
        return out

    def build_guestlibs(self, libs=(1, 2), indices=(0, 1, 2)):
        """Shared objects for the dylib backend: one file per (library id, instance index)."""
        d = os.path.join(self.out, 'guestlibs')
        os.makedirs(d, exist_ok=True)
        src = os.path.join(VERIF, 'harness', 'guestlib.c')
        for lib in libs:
            base = os.path.join(d, 'libguest_%d_base.so' % lib)
            rc, so, se = sh(['gcc', '-shared', '-fPIC', '-O1', '-DLIBID=%d' % lib, src, '-o', base])
            if rc != 0:
                raise CannotDecide('cannot build guest library: ' + se[:300])
            for i in indices:
                import shutil
                shutil.copy(base, os.path.join(d, 'libguest_%d_%d.so' % (lib, i)))
        return d

    def build_many(self, specs):
        """specs: list of (name, src, kwargs). Parallel build."""
        # A harness variant that does not build against the tree under test does not hide what the other variants find:
        # it is recorded as a harness error (exit 2 unless a violation is reported, never "held"), its runs are skipped.
        outs = _Bins()
        errs = []
        with cf.ThreadPoolExecutor(max_workers=NPROC) as ex:
            futs = {ex.submit(self.build, n, s, **kw): n for n, s, kw in specs}
            for f in cf.as_completed(futs):
                try:
                    outs[futs[f]] = f.result()
                except CannotDecide as e:
                    errs.append(str(e))
        if errs and not outs:
            raise CannotDecide(errs[0])
        for e in errs:
            self.result.crashed.append('build: ' + e)
        return outs

    # ---- running --------------------------------------------------------
    def run_one(self, binary, args, timeout, env=None):
        r = Result()
        r.parts = 1
        e = dict(os.environ)
        e.setdefault('ASAN_OPTIONS', 'detect_leaks=0:abort_on_error=0:allocator_may_return_null=1')
        if env:
            e.update(env)
        try:
            rc, so, se = sh([binary] + [str(a) for a in args], timeout=timeout, env=e)
        except subprocess.TimeoutExpired:
            r.crashed.append('timeout: %s %s' % (os.path.basename(binary), ' '.join(map(str, args))))
            return r
        for line in so.splitlines():
            r.merge_line(line)
        if rc != 0 and not r.viols:
            r.crashed.append('exit %d: %s %s :: %s' % (rc, os.path.basename(binary),
                                                       ' '.join(map(str, args)), se.strip()[-400:]))
        for v in r.viols:
            v.setdefault('bin', os.path.basename(binary))
            v.setdefault('args', [str(a) for a in args])
        return r

    def run(self, binary, args=(), parts=NPROC, timeout=None, env=None, workers=NPROC):
        """Run `binary args --part i/parts` for every i, in parallel; merge into ctx.result."""
        if binary is None:  # the variant did not build (already recorded by build_many)
            return
        if timeout is None:
            timeout = max(30.0, self.remaining() + 60.0)
        jobs = []
        for i in range(parts):
            a = list(args) + ['--part', '%d/%d' % (i, parts), '--seed', str(self.seed),
                              '--budget', '%d' % max(5, int(self.remaining()))]
            jobs.append(a)
        with cf.ThreadPoolExecutor(max_workers=workers) as ex:
            rs = list(ex.map(lambda a: self.run_one(binary, a, timeout, env), jobs))
        agg = Result()
        for r in rs:
            agg.absorb(r)
        self.result.absorb(agg)
        return agg

    def note(self, s):
        self.notes.append(s)
        print('note: ' + s)


# ---- known findings ------------------------------------------------------
def load_known():
    path = os.path.join(VERIF, 'known_findings.jsonl')
    known, fixed = [], []
    if os.path.exists(path):
        for line in open(path):
            line = line.strip()
            if not line or line.startswith('//'):
                continue
            if line.startswith('fixed:'):
                fixed.append(line)
                continue
            try:
                d = json.loads(line)
            except json.JSONDecodeError:
                continue
            if d.get('status') == 'known':
                known.append(d)
            else:
                fixed.append(d)
    return known, fixed


def _uniq(xs):
    seen, out = set(), []
    for x in xs:
        k = json.dumps(x, sort_keys=True, default=str)
        if k not in seen:
            seen.add(k)
            out.append(x)
    return out


def finish(ctx, meta):
    """Classify violations, replay new ones, write evidence, print verdict, return exit code."""
    res = ctx.result
    prop = ctx.prop
    known, _ = load_known()
    known_sigs = {k['signature']: k for k in known if k.get('property') == prop}
    by_sig = {}
    for v in res.viols:
        by_sig.setdefault(v['sig'], []).append(v)
    rc = 0
    new_viol = 0
    known_hit = 0
    replay_dir = os.path.join(os.environ.get('VERIF_OUT_DIR') or os.path.join(VERIF, 'out'), 'replays')
    os.makedirs(replay_dir, exist_ok=True)
    MAXREP = 40
    for sig in sorted(by_sig):
        vs = by_sig[sig]
        if new_viol >= MAXREP and sig not in known_sigs:
            new_viol += 1
            continue
        if sig in known_sigs:
            known_hit += 1
            print('KNOWN-FINDING: property=%s %s (%d cases; signature %s)'
                  % (prop, known_sigs[sig].get('what', ''), len(vs), sig))
            continue
        v = vs[0]
        # replay alone before reporting
        reproduced = True
        if v.get('bin') and v.get('case') is not None and not v.get('noreplay'):
            b = ctx.builds.get(v['bin'])
            if b:
                rr = ctx.run_one(b['bin'], ['--replay', v['case']], timeout=300)
                # the same case must violate the property again; under memory-corrupting defects the *kind* of
                # failure (race report / crash / wrong observation) may differ between two runs of one schedule
                reproduced = any(x['sig'] == sig for x in rr.viols) or (prop == 'C18' and bool(rr.viols))
        h = hashlib.sha1((prop + sig + json.dumps(v.get('case'))).encode()).hexdigest()[:12]
        path = os.path.join(replay_dir, '%s_%s.json' % (prop, h))
        b = ctx.builds.get(v.get('bin'), {})
        with open(path, 'w') as f:
            json.dump(dict(property=prop, signature=sig, case=v.get('case'), detail=v.get('detail'),
                           harness=v.get('bin'), build_cmd=b.get('cmd'), source=b.get('src'),
                           repo=ctx.repo, tier=ctx.tier, n_cases_with_signature=len(vs),
                           reproduced_on_replay=reproduced), f, indent=1)
        if not reproduced:
            print('HARNESS-ERROR: property=%s signature %s did not reproduce on replay (%s)' % (prop, sig, path))
            if rc == 0:
                rc = 2  # undecided, unless a reproduced violation is reported as well
            continue
        new_viol += 1
        print('VIOLATION property=%s replay=%s' % (prop, path))
        print('  signature: %s' % sig)
        print('  detail: %s' % str(v.get('detail'))[:600])
        rc = 1
    if new_viol > MAXREP:
        print('(%d further violation signatures not listed individually)' % (new_viol - MAXREP))
    if res.crashed:
        for c in res.crashed[:10]:
            print('HARNESS-ERROR: ' + c)
        if rc == 0:
            rc = 2
    exhaustive = ctx.exhaustive and not res.capped and not res.crashed and res.done == res.parts
    st = res.stat
    evaluations = int(st.get('evaluations', 0))
    cov = dict(
        evaluations=evaluations,
        distinct_nontrivial=int(st.get('nontrivial', 0)),
        rule=meta.get('rule', ''),
        samples=_uniq(res.samples)[:12] if res.samples else [],
        exhaustive=bool(exhaustive),
        partitions_finished=res.done,
        partitions=res.parts,
        caps_hit=res.capped[:5],
        counters={k: v for k, v in sorted(st.items())},
        distinct_sets={k: len(v) for k, v in sorted(res.sets.items())},
        known_findings_reproduced=known_hit,
    )
    if meta.get('level') == 'model_checking':
        cov['states'] = int(st.get('states', 0))
        cov['transitions'] = int(st.get('transitions', 0))
        cov['traces_validated_against_impl'] = int(st.get('traces', st.get('transitions', 0)))
    cov.update(ctx.extra_cov)
    ev = dict(property_id=prop, tier=ctx.tier, seed=ctx.seed, level=meta['level'], coverage=cov,
              assumptions=meta.get('assumptions', []) + ctx.notes,
              wall_s=round(time.time() - ctx.t0, 2), violations=new_viol)
    evdir = os.environ.get('VERIF_EVIDENCE_DIR') or os.path.join(VERIF, 'evidence')
    os.makedirs(evdir, exist_ok=True)
    with open(os.path.join(evdir, prop + '.json'), 'w') as f:
        json.dump(ev, f, indent=1, default=str)
    print('%s tier=%s evaluations=%d nontrivial=%d states=%s transitions=%s exhaustive=%s violations=%d known=%d wall=%.1fs'
          % (prop, ctx.tier, evaluations, cov['distinct_nontrivial'], cov.get('states'), cov.get('transitions'),
             exhaustive, new_viol, known_hit, time.time() - ctx.t0))
    return rc


def main(argv):
    import argparse
    import importlib
    ap = argparse.ArgumentParser()
    ap.add_argument('prop')
    ap.add_argument('--tier', default=os.environ.get('VERIF_TIER', 'quick'))
    ap.add_argument('--replay')
    a = ap.parse_args(argv)
    seed = int(os.environ.get('VERIF_SEED', '0') or 0)
    prop = a.prop.upper()
    sys.path.insert(0, os.path.join(VERIF, 'lib'))
    mod = importlib.import_module(prop.lower())
    ctx = Ctx(prop, a.tier if a.tier in ('quick', 'thorough') else 'quick', seed)
    if a.replay:
        rp = json.load(open(a.replay))
        try:
            if hasattr(mod, 'replay'):
                return mod.replay(ctx, rp)
            cmd = rp['build_cmd']
            # rebuild against the current tree
            out = os.path.join(ctx.out, 'replay_' + rp['harness'])
            cmd = [c for c in cmd]
            cmd[cmd.index('-o') + 1] = out
            rc, so, se = sh(cmd, timeout=1200)
            if rc != 0:
                print('CANNOT-DECIDE: replay harness does not build: ' + se[:400])
                return 2
            r = ctx.run_one(out, ['--replay', rp['case']], timeout=600)
            hit = [v for v in r.viols if v['sig'] == rp['signature']]
            if hit:
                print('VIOLATION property=%s replay=%s' % (prop, a.replay))
                print('  detail: ' + str(hit[0].get('detail'))[:600])
                return 1
            print('replay: no violation for signature ' + rp['signature'])
            return 0
        except CannotDecide as e:
            print('CANNOT-DECIDE: ' + str(e))
            return 2
    try:
        mod.run(ctx)
    except CannotDecide as e:
        print('CANNOT-DECIDE: property=%s %s' % (prop, e))
        return 2
    return finish(ctx, mod.META)
