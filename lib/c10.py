META = dict(
    level='exploration',
    rule=('cases = (operation, sandbox-side start, application-side start, extent, element type, size-operand form); operations memset, memcpy (tainted->tainted, '
          'raw->tainted), memcmp (both forms), copy_and_verify_range, copy_and_verify_buffer_address, unverified_safe_pointer_because (6 element types; receiver = the tainted pointer and = a pointer cell in sandbox memory), '
          'copy_and_verify_string (terminated / unterminated at the end of the region, two verifier kinds), copy_memory_or_grant_access, copy_memory_or_deny_access '
          '(copy branch; 3 element types); sandbox starts {null, offsets 0,1,2, interior, last 3 bytes}; application starts {null, arena begin/middle/end abutting '
          'PROT_NONE pages, inside the other sandbox, inside the same sandbox, just before the sandbox}; extents {0..3, remaining-2..remaining+2, size-2..size+2, '
          '2^16, 2^31, 2^32, 2^63 +-1, 2^64-k and counts whose byte size wraps 2^64}; six size-operand forms incl. negative ints and tainted. Oracle: three-valued '
          'interval model in 128-bit arithmetic; outcome + byte diff of own sandbox, other sandbox and arena against the reference effect; SIGSEGV = CRASH. '
          'non-trivial = model verdict other than must-proceed.'),
    assumptions=['registry mode runs with two live sandboxes of the type under test and again with exactly one', 'start addresses are classes, extents are what the checks depend on', 'in mask mode application ranges crossing a 64 KiB chunk boundary are unconstrained (the backend predicate rejects them)',
                 'allocations above 1 MiB are refused by the harness allocator and count as allocation failure'],
)


def run(ctx):
    specs = [('c10_mask', 'c10.cpp', dict(opt='-O1')), ('c10_reg', 'c10.cpp', dict(opt='-O1', defs=['C10_MODE=REGISTRY'])),
             ('c10_reg1', 'c10.cpp', dict(opt='-O1', defs=['C10_MODE=REGISTRY', 'C10_SINGLE'])), ('c10_noop', 'c10n.cpp', dict(opt='-O1', access=True))]
    bins = ctx.build_many(specs)
    a = ['--thorough'] if ctx.thorough else []
    ctx.run(bins['c10_mask'], a)
    ctx.run(bins['c10_reg'], a)
    ctx.run(bins['c10_reg1'], a)
    ctx.run(bins['c10_noop'], a, parts=1)
