import os
import sys

META = dict(
    level='exploration',
    rule=('generated struct family: every sequence of length 1 and 2 (thorough: 3, plus length 4 over the 8 kinds whose guest size/alignment differs) over 17 field kinds '
          '{char, short, int, long, long long, unsigned long, bool, enum, float, double, T*, function pointer, char[5], long[3], T*[2], nested struct, const int} plus long '
          'structs cycling all kinds in rotated orders, under three foreign ABIs (lp32 and wide with 16-bit pointers, lp32 with 64-bit base-relative pointers). Per struct: size / alignment / every field offset of the '
          'sandbox image against an independently declared fixed-width guest struct AND against the generator\'s own layout routine; for all 3^n selections of boundary '
          'values (n <= 3; per-field sweeps for longer structs) at two placements (interior, ending on the last byte of the region): load of the whole struct, store of the '
          'whole struct (guest fields compared one by one, red zones), by-value argument and by-value result of an invocation; a field value that does not fit the other '
          'side must abort (fork isolation: these checks fire inside noexcept members). Structs with const fields are exercised field-wise through the pointer. '
          'non-trivial = every selection case.'),
    assumptions=['bit-fields, unions and packed structs are not expressible in RLBox\'s reflection and are absent', 'field sequences up to length 2/3 exhaustively, longer ones by rotation'],
)


def run(ctx):
    gen = os.path.join(ctx.out, 'gen')
    os.makedirs(gen, exist_ok=True)
    sys.path.insert(0, os.path.join(os.path.dirname(os.path.dirname(os.path.abspath(__file__))), 'gen'))
    import c08_gen
    nch = 16 if not ctx.thorough else 64
    specs = []
    total = 0
    for abi in ('lp32', 'wide', 'lp32p64'):
        paths, ns = c08_gen.emit(abi, ctx.tier, gen, nch)
        total += ns
        for i, p in enumerate(paths):
            specs.append(('c08_%s_%d' % (abi, i), p, dict(opt='-O0')))
    bins = ctx.build_many(specs)
    import concurrent.futures as cf
    with cf.ThreadPoolExecutor(max_workers=16) as ex:
        list(ex.map(lambda n: ctx.run(bins[n], [], parts=1, workers=1), [s[0] for s in specs]))
    ctx.extra_cov['programs'] = total
    ctx.result.stat['struct_definitions'] = total
