import os
import subprocess
import sys

META = dict(
    level='model_checking',
    rule=('G+X: generated signature family over 20 parameter kinds (bool, char, 8 integer widths/signs, float, double, enum, void*, const char*, long*, function '
          'pointer, struct by value, struct pointer): all 1-parameter signatures x 21 return kinds, the 2-parameter signatures (each ordered pair once in quick, x3 '
          'return kinds in thorough), 20 signatures of 12 parameters in rotated kind order, 0 parameters; per parameter every argument form (plain, tainted, '
          'tainted_opaque, tainted_volatile lvalue, nullptr, sandbox function address, sandbox_callback) and every boundary value incl. values that do not fit the '
          'guest type (must abort before the call: guest call count 0); per return kind guest bit patterns incl. values that do not fit the application type; '
          'guest functions are written against this generator\'s own ABI table (lp32 and wide). H: BFS over histories on three instances bound to two libraries '
          'exporting the same names (mbox by-name; mbox with function addresses in an internal representation distinct from the invocation pointer, i.e. needs_internal_lookup_symbol; '
          'dylib with per-instance file copies): invoke, invoke the name whose address is taken, take a function address, pass it back, a NESTED call chain (invoke on instance i with a callback that, while it runs, registers a callback on instance i+1, invokes there a function that calls it, invokes a plain function there and one on i re-entrantly; the outer guest function then calls the outer callback a second time) with the callback handle passed directly or obtained through two move assignments, destroy, re-create with another library; a crash inside a chain is a violation of that history; '
          'states are deduplicated on the model state and the CONTENT of the symbol caches. states = history states, transitions = history operations; evaluations = generated cases + history checks.'),
    assumptions=['signature shapes beyond 2 parameters are covered by rotation, not exhaustively', 'struct fields that do not fit the guest type are left to C08 (they terminate inside noexcept members)'],
)


def run(ctx):
    gd = ctx.build_guestlibs()
    gen = os.path.join(ctx.out, 'gen')
    os.makedirs(gen, exist_ok=True)
    nch = 16
    specs = []
    sys.path.insert(0, os.path.join(os.path.dirname(os.path.dirname(os.path.abspath(__file__))), 'gen'))
    import c11_gen
    total = 0
    for abi in ('lp32', 'wide'):
        paths, ns = c11_gen.emit(abi, ctx.tier, gen, nch)
        total += ns
        for i, p in enumerate(paths):
            specs.append(('c11_%s_%d' % (abi, i), p, dict(opt='-O0')))
    specs.append(('c11h_mbox', 'c11h.cpp', dict(opt='-O1', access=True)))
    # model backend whose function ADDRESSES are an internal representation distinct from the invocation pointer (needs_internal_lookup_symbol)
    specs.append(('c11h_mbox_internal', 'c11h.cpp', dict(opt='-O1', access=True, defs=['MBOX_INTERNAL_LOOKUP'])))
    specs.append(('c11h_dylib', 'c11h.cpp', dict(opt='-O1', access=True, defs=['BK_DYLIB', 'GUEST_LIB_DIR="%s"' % gd], link=['-ldl'])))
    bins = ctx.build_many(specs)
    ctx.extra_cov['programs'] = total
    import concurrent.futures as cf
    names = [n for n, _, _ in specs if n.startswith('c11_')]
    with cf.ThreadPoolExecutor(max_workers=16) as ex:
        list(ex.map(lambda n: ctx.run(bins[n], [], parts=1, workers=1), names))
    with cf.ThreadPoolExecutor(max_workers=3) as ex:
        list(ex.map(lambda n: ctx.run(bins[n], ['--thorough'] if ctx.thorough else [], parts=1, workers=1), ['c11h_mbox', 'c11h_mbox_internal', 'c11h_dylib']))
