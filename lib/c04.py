META = dict(
    level='model_checking',
    rule=('X: every offset 1..65535 of a 64 KiB mbox region and null through get_[un]sandboxed_pointer with context, the _no_ctx pair with three example '
          'addresses, and 20 pointer-carrying positions (invoke argument incl. opaque/nullptr forms, invoke result, callback argument/result, pointer cell '
          'store/load/cell-to-cell, array of pointers, struct field by pointer / by value, by-value struct argument/result, free) with two live instances, '
          'guest-side bytes inspected; mask and registry membership modes; 32-bit instance on the boundary lattice. H: all create/destroy histories over '
          'three instances up to depth 5 (7 thorough) - all 16 ordered live-lists are reached, also via re-creation - and in each state every live instance '
          'must translate data and function pointers relative to itself. states = histories explored, transitions = per-position / per-instance checks.'),
    assumptions=['offset 0 has representation 0 = null and is therefore excluded from the address->representation->address round trip',
                 'function-pointer round trips are stable because mbox\'s table is find-or-insert (a backend choice)'],
)


def run(ctx):
    specs = [('c04_mask16', 'c04.cpp', dict(opt='-O1', access=True)),
             ('c04_reg16', 'c04.cpp', dict(opt='-O1', access=True, defs=['C04_MODE=REGISTRY'])),
             ('c04_mask32', 'c04.cpp', dict(opt='-O1', access=True, defs=['C04_PTR=uint32_t'])),
             # guest pointers as wide as the host's but base-relative: equal width is not equal representation
             ('c04_mask64', 'c04.cpp', dict(opt='-O1', access=True, defs=['C04_PTR=uint64_t', 'C04_LOG=16']))]
    bins = ctx.build_many(specs)
    a = ['--thorough'] if ctx.thorough else []
    for k in ('c04_mask16', 'c04_reg16', 'c04_mask32', 'c04_mask64'):
        ctx.run(bins[k], a)
    if ctx.thorough:
        ctx.run(bins['c04_mask32'], a + ['--what', 'sweep32'])
