#!/usr/bin/env python3
"""mk.py <out.diff> <file relative to repo> <old text> <new text> [count]: make a mutant patch by textual replacement."""
import difflib, os, sys
out, rel, old, new = sys.argv[1:5]
cnt = int(sys.argv[5]) if len(sys.argv) > 5 else 1
src = open(os.path.join('/repo', rel)).read()
if src.count(old) < 1:
    sys.exit('old text not found in ' + rel)
if cnt == 1 and src.count(old) != 1:
    sys.exit('old text occurs %d times in %s' % (src.count(old), rel))
dst = src.replace(old, new) if cnt != 1 else src.replace(old, new, 1)
d = difflib.unified_diff(src.splitlines(True), dst.splitlines(True), 'a/' + rel, 'b/' + rel)
os.makedirs(os.path.dirname(out), exist_ok=True)
open(out, 'w').write(''.join(d))
print('wrote', out)
