#!/usr/bin/env python3
"""Self-test: apply one mutant patch to a scratch copy of /repo, (optionally) run the repository's own
suite there, run the property's quick check against the copy and require a VIOLATION.
usage: selftest/run.py [--suite] [--tier quick] <patch.diff>...      (property id = first path component C??)
       selftest/run.py --all [--suite]
Scratch copies live under /var/tmp and are removed afterwards."""
import glob, json, os, re, shutil, subprocess, sys, tempfile, time

VERIF = os.path.dirname(os.path.dirname(os.path.abspath(__file__)))


def one(patch, suite, tier):
    m = re.search(r'(C\d\d)', patch)
    prop = m.group(1)
    scratch = tempfile.mkdtemp(prefix='rlbox_mut_', dir='/var/tmp')
    res = dict(patch=os.path.relpath(patch, VERIF), property=prop)
    try:
        for item in ('code', 'CMakeLists.txt', 'cmake', 'LICENSE', 'README.md'):
            src = os.path.join('/repo', item)
            dst = os.path.join(scratch, item)
            if os.path.isdir(src):
                shutil.copytree(src, dst)
            elif os.path.exists(src):
                shutil.copy(src, dst)
        r = subprocess.run(['patch', '-p1', '-s', '-i', os.path.abspath(patch)], cwd=scratch, capture_output=True, text=True)
        if r.returncode != 0:
            res['status'] = 'PATCH-FAILED ' + (r.stdout + r.stderr)[:300]
            return res
        if suite:
            b = os.path.join(scratch, '_b')
            r = subprocess.run('cmake -G Ninja -S . -B _b -DCMAKE_BUILD_TYPE=Release >/dev/null && cmake --build _b -j16 >_b.err 2>&1 && ctest --test-dir _b -j8 --timeout 900 2>&1 | grep -E "tests passed|Failed|\\*\\*\\*" | head -8',
                               shell=True, cwd=scratch, capture_output=True, text=True)
            out = r.stdout + r.stderr
            mm = re.search(r'(\d+)% tests passed, (\d+) tests failed out of (\d+)', out)
            res['suite'] = mm.group(0) if mm else ('BUILD-FAILED ' + open(os.path.join(scratch, '_b.err')).read()[-1500:] if os.path.exists(os.path.join(scratch, '_b.err')) else out[-300:])
            shutil.rmtree(b, ignore_errors=True)
        env = dict(os.environ, VERIF_REPO=scratch, VERIF_EVIDENCE_DIR=os.path.join(scratch, '_ev'), VERIF_OUT_DIR=os.path.join(scratch, '_out'))
        t0 = time.time()
        r = subprocess.run([os.path.join(VERIF, 'bin', 'check'), prop, '--tier', tier], cwd=VERIF, env=env, capture_output=True, text=True)
        res['exit'] = r.returncode
        res['wall_s'] = round(time.time() - t0, 1)
        v = [l for l in r.stdout.splitlines() if l.startswith('VIOLATION')]
        sigs = [l.strip() for l in r.stdout.splitlines() if l.strip().startswith('signature:')]
        res['violations'] = len(v)
        res['signatures'] = sigs[:4]
        res['status'] = 'DETECTED' if r.returncode == 1 and v else 'MISSED (exit %d) %s' % (r.returncode, r.stdout[-400:])
    finally:
        shutil.rmtree(scratch, ignore_errors=True)
    return res


def main():
    args = sys.argv[1:]
    suite = '--suite' in args
    tier = 'quick'
    if '--tier' in args:
        tier = args[args.index('--tier') + 1]
    patches = [a for a in args if a.endswith('.diff')]
    if '--all' in args:
        patches = sorted(glob.glob(os.path.join(VERIF, 'selftest', 'C??', '*.diff')))
    ok = True
    for p in patches:
        r = one(p, suite, tier)
        print(json.dumps(r))
        sys.stdout.flush()
        ok = ok and r.get('status') == 'DETECTED'
    sys.exit(0 if ok else 1)


main()
