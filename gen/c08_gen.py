#!/usr/bin/env python3
"""Generates the C08 struct-family translation units.
Each struct gets: the application definition, RLBox's reflection macro, an independently declared guest struct with
fixed-width types, offsets computed by this generator's own layout routine, and a test function."""
import itertools
import os
import sys

# code: (K tag, app type for reflection, app declarator fmt, guest declarator fmt, lp32 (size, align), wide (size, align), const?)
KINDS = {
    'c': ('K_c', 'char', 'char %s', 'char %s', (1, 1), (1, 1)),
    's': ('K_s', 'short', 'short %s', 'g_short_t %s', (2, 2), (4, 4)),
    'i': ('K_i', 'int', 'int %s', 'g_int_t %s', (4, 4), (8, 8)),
    'l': ('K_l', 'long', 'long %s', 'g_long_t %s', (4, 4), (8, 8)),
    'll': ('K_ll', 'long long', 'long long %s', 'int64_t %s', (8, 8), (8, 8)),
    'ul': ('K_ul', 'unsigned long', 'unsigned long %s', 'g_ulong_t %s', (4, 4), (8, 8)),
    'b': ('K_b', 'bool', 'bool %s', 'bool %s', (1, 1), (1, 1)),
    'e': ('K_e', 'E4', 'E4 %s', 'E4 %s', (4, 4), (4, 4)),
    'f': ('K_f', 'float', 'float %s', 'float %s', (4, 4), (4, 4)),
    'd': ('K_d', 'double', 'double %s', 'double %s', (8, 8), (8, 8)),
    'p': ('K_p', 'int*', 'int* %s', 'g_ptr_t %s', (2, 2), (2, 2)),
    'fn': ('K_fn', 'int (*)(long)', 'int (*%s)(long)', 'g_ptr_t %s', (2, 2), (2, 2)),
    'ca': ('K_ca', 'char[5]', 'char %s[5]', 'char %s[5]', (5, 1), (5, 1)),
    'la': ('K_la', 'long[3]', 'long %s[3]', 'g_long_t %s[3]', (12, 4), (24, 8)),
    'l2': ('K_l2', 'long[2][3]', 'long %s[2][3]', 'g_long_t %s[2][3]', (24, 4), (48, 8)),
    'pa': ('K_pa', 'int*[2]', 'int* %s[2]', 'g_ptr_t %s[2]', (4, 2), (4, 2)),
    'ns': ('K_ns', 'Inner', 'Inner %s', 'GInner %s', (8, 4), (16, 8)),
    'ci': ('K_ci', 'const int', 'const int %s', 'g_int_t %s', (4, 4), (8, 8)),
}
ALL = list(KINDS)
# kinds whose guest size or alignment differs from the host's or from each other (length-4 family)
REDUCED = ['c', 's', 'l', 'll', 'p', 'ca', 'la', 'l2', 'ns']


P64 = {'p': (8, 8), 'fn': (8, 8), 'pa': (16, 8)}


def layout(kinds, abi):
    idx = 5 if abi == 'wide' else 4
    off = 0
    maxal = 1
    offs = []
    for k in kinds:
        size, al = KINDS[k][idx]
        if abi == 'lp32p64' and k in P64:
            size, al = P64[k]
        off = (off + al - 1) // al * al
        offs.append(off)
        off += size
        maxal = max(maxal, al)
    total = (off + maxal - 1) // maxal * maxal
    return offs, total, maxal


def family(tier):
    fam = [[k] for k in ALL] + [list(p) for p in itertools.product(ALL, repeat=2)]
    if tier == 'thorough':
        fam += [list(p) for p in itertools.product(ALL, repeat=3)]
        fam += [list(p) for p in itertools.product(REDUCED, repeat=4)]
    # long mixed structs: all kinds in rotated order
    for rot in range(0, len(ALL), 1 if tier == 'thorough' else 4):
        fam.append(ALL[rot:] + ALL[:rot])
    return fam


def emit_struct(n, kinds, abi):
    S, GS = 'S%d' % n, 'GS%d' % n
    nf = len(kinds)
    fields = ['f%d' % i for i in range(nf)]
    out = []
    out.append('struct %s { %s };' % (S, ' '.join((KINDS[k][2] % f) + ';' for k, f in zip(kinds, fields))))
    out.append('struct %s { %s };' % (GS, ' '.join((KINDS[k][3] % f) + ';' for k, f in zip(kinds, fields))))
    refl = ' '.join('f(%s, %s, FIELD_NORMAL, ##__VA_ARGS__) g()' % (KINDS[k][1], f) for k, f in zip(kinds, fields))
    out.append('#define sandbox_fields_reflection_c08_class_%s(f, g, ...) %s' % (S, refl))
    return '\n'.join(out)


def emit_test(n, kinds, abi):
    S, GS = 'S%d' % n, 'GS%d' % n
    nf = len(kinds)
    fields = ['f%d' % i for i in range(nf)]
    K = [KINDS[k][0] for k in kinds]
    offs, total, maxal = layout(kinds, abi)
    is_const = [k == 'ci' for k in kinds]
    kstr = ','.join(kinds)
    if any(is_const):
        return emit_test_fieldwise(n, kinds, abi)
    t = []
    t.append('%s takeret_%s(%s);' % (S, S, S))
    t.append('static rlbox::Sbx_c08_%s<SB> g_arg_%s, g_retv_%s;' % (S, S, S))
    t.append('static rlbox::Sbx_c08_%s<SB> guest_takeret_%s(rlbox::Sbx_c08_%s<SB> s) { g_arg_%s = s; return g_retv_%s; }' % (S, S, S, S, S))
    t.append('static void test_%s() {' % S)
    t.append('  using S = %s; using GS = %s; using XS = rlbox::Sbx_c08_%s<SB>; Rep R{ "%s", "%s" };' % (S, GS, S, S, kstr))
    t.append('  const int NF = %d; const uint64_t kSize = SB::kSize;' % nf)
    # layout
    t.append('  n_eval++;')
    t.append('  if (sizeof(rlbox::tainted_volatile<S, SB>) != sizeof(GS) || sizeof(XS) != sizeof(GS) || sizeof(GS) != %d) R.bad("layout", "-", "size", "sandbox image has size " + std::to_string(sizeof(rlbox::tainted_volatile<S, SB>)) + " / " + std::to_string(sizeof(XS)) + ", the ABI prescribes " + std::to_string(sizeof(GS)) + " (generator: %d)", "-");' % (total, total))
    t.append('  if (alignof(XS) != alignof(GS) || alignof(GS) != %d) R.bad("layout", "-", "alignment", "alignment " + std::to_string(alignof(XS)) + " vs " + std::to_string(alignof(GS)), "-");' % maxal)
    t.append('  { tn<S*> ps; ps.assign_raw_pointer(*g_sb, reinterpret_cast<S*>(g_base + 0x100)); uintptr_t o;')
    for i, (k, f) in enumerate(zip(kinds, fields)):
        addr = '(&ps->%s.x)' % f if k == 'ns' else '(&ps->%s)' % f
        t.append('    o = reinterpret_cast<uintptr_t>(%s.UNSAFE_unverified()) - (g_base + 0x100); n_eval++; if (o != offsetof(GS, %s) || o != %d) R.bad("layout", %s::n, "field-offset", "field %s lies at offset " + std::to_string(o) + ", the ABI prescribes " + std::to_string(offsetof(GS, %s)) + " (generator: %d)", "-");'
                 % (addr, f, offs[i], K[i], f, f, offs[i]))
    t.append('  }')
    # selection vectors: all 3^n for n<=3, otherwise each field in turn plus all-equal vectors
    if nf <= 3:
        t.append('  std::vector<std::vector<int>> SV; for (int c = 0; c < %d; c++) { std::vector<int> v; int x = c; for (int i = 0; i < NF; i++) { v.push_back(x %% 3); x /= 3; } SV.push_back(v); }' % (3 ** nf))
    else:
        t.append('  std::vector<std::vector<int>> SV; for (int s = 0; s < 3; s++) SV.push_back(std::vector<int>(NF, s)); for (int i = 0; i < NF; i++) for (int s = 1; s < 3; s++) { std::vector<int> v(NF, 0); v[i] = s; SV.push_back(v); std::vector<int> w(NF, 3 - s); w[i] = s; SV.push_back(w); }')
    t.append('  const uint64_t places[2] = { 0x200, kSize - sizeof(GS) };')
    t.append('  for (auto& sv : SV) for (uint64_t at : places) {')
    t.append('    std::string sel; for (int s : sv) sel += std::to_string(s); sel += "@" + std::to_string(at);')
    t.append('    int sv2[%d]; const bool isc[%d] = { %s }; for (int i = 0; i < NF; i++) sv2[i] = isc[i] ? sv[i] : (sv[i] + 1) %% 3;' % (nf, nf, ', '.join('true' if c else 'false' for c in is_const)))
    t.append('    tn<S*> ps; ps.assign_raw_pointer(*g_sb, reinterpret_cast<S*>(g_base + at));')
    t.append('    uint64_t at2 = at == 0x200 ? 0x400 : 0x200; tn<S*> ps2; ps2.assign_raw_pointer(*g_sb, reinterpret_cast<S*>(g_base + at2));')
    t.append('    GS g; memset(&g, 0, sizeof g);')
    for i, f in enumerate(fields):
        t.append('    setg<%s>(g.%s, sv[%d]);' % (K[i], f, i))
    t.append('    memcpy(g_mem + at, &g, sizeof g);')
    t.append('    n_eval++; n_nontriv++; g_cur_struct = R.sname; g_cur_kinds = R.kinds; g_cur_sel = sel;')
    t.append('    Outcome o = attempt([&] {')
    t.append('      tn<S> t = *ps;')
    for i, f in enumerate(fields):
        t.append('      if (!chkt<%s>(t.%s, sv[%d])) R.bad("load", %s::n, "field-value", "field %s read from sandbox memory has a wrong value", sel);' % (K[i], f, i, K[i], f))
    for i, f in enumerate(fields):
        t.append('      setf<%s>(t.%s, sv2[%d]);' % (K[i], f, i))
    t.append('      memset(g_mem + at2 - 16, 0xA5, sizeof(GS) + 32);')
    t.append('      *ps2 = t;')
    t.append('      GS g2; memcpy(&g2, g_mem + at2, sizeof g2);')
    for i, f in enumerate(fields):
        t.append('      if (!chkg<%s>(g2.%s, sv2[%d])) R.bad("store", %s::n, "field-value", "field %s written to sandbox memory has a wrong guest encoding", sel);' % (K[i], f, i, K[i], f))
    t.append('      for (int i = 1; i <= 16; i++) if (g_mem[at2 - i] != 0xA5 || g_mem[at2 + sizeof(GS) - 1 + i] != 0xA5) { R.bad("store", "-", "wrote-outside-struct", "bytes outside the struct image changed", sel); break; }')
    # by value
    t.append('      memset(&g_arg_%s, 0, sizeof g_arg_%s);' % (S, S))
    for i, f in enumerate(fields):
        t.append('      g2s<%s>(g_retv_%s.%s, g.%s);' % (K[i], S, f, f))
    t.append('      auto r = g_sb->invoke_sandbox_function(takeret_%s, t);' % S)
    t.append('      GS ga; memset(&ga, 0, sizeof ga);')
    for i, f in enumerate(fields):
        t.append('      s2g<%s>(g_arg_%s.%s, ga.%s);' % (K[i], S, f, f))
    for i, f in enumerate(fields):
        t.append('      if (!chkg<%s>(ga.%s, sv2[%d])) R.bad("by-value-argument", %s::n, "field-value", "field %s of a by-value struct argument arrives with a wrong guest encoding", sel);' % (K[i], f, i, K[i], f))
    for i, f in enumerate(fields):
        t.append('      if (!chkt<%s>(r.%s, sv[%d])) R.bad("by-value-result", %s::n, "field-value", "field %s of a by-value struct result has a wrong value", sel);' % (K[i], f, i, K[i], f))
    t.append('    });')
    t.append('    if (o != RET) R.bad("roundtrip", "-", "abort", "representable field values aborted", sel);')
    t.append('  }')
    # unrepresentable field values
    unrep = [i for i, k in enumerate(kinds) if k in (('l', 'ul', 'la', 'l2') if abi != 'wide' else ('s', 'i'))]
    if unrep:
        i = unrep[0]
        f = fields[i]
        k = kinds[i]
        t.append('  { // a field value that is not representable on the other side must abort')
        t.append('    tn<S*> ps; ps.assign_raw_pointer(*g_sb, reinterpret_cast<S*>(g_base + 0x200)); GS g; memset(&g, 0, sizeof g); memcpy(g_mem + 0x200, &g, sizeof g);')
        if abi != 'wide':
            # above the guest maximum, and (signed kinds) below the guest minimum: both bounds of the narrowing conversion
            vals = [('2^40', '0x10000000000')] + ([('-2^40', '-0x10000000000'), ('INT32_MIN-1', '-2147483649')] if k != 'ul' else [('UINT32_MAX+1', '0x100000000')])
            for vn, vv in vals:
                suf = 'UL' if k == 'ul' else 'L'
                setter = {'l': 't.%s = %s%s;' % (f, vv, suf), 'ul': 't.%s = %s%s;' % (f, vv, suf), 'la': 't.%s[1] = %s%s;' % (f, vv, suf), 'l2': 't.%s[1][2] = %s%s;' % (f, vv, suf)}[k]
                t.append('    n_eval += 2; n_nontriv += 2;')
                t.append('    { tn<S> t = *ps; %s' % setter)
                t.append('      int c1 = in_child([&] { *ps = t; });')
                t.append('      if (c1 != CH_ABORT) R.bad("store", %s::n, "unrepresentable-not-aborted", "field %s = %s does not fit the guest type; store ended with code " + std::to_string(c1), "unrep");' % (K[i], f, vn))
                t.append('      int c2 = in_child([&] { g_sb->invoke_sandbox_function(takeret_%s, t); });' % S)
                t.append('      if (c2 != CH_ABORT) R.bad("by-value-argument", %s::n, "unrepresentable-not-aborted", "field %s = %s does not fit the guest type; call ended with code " + std::to_string(c2), "unrep"); }' % (K[i], f, vn))
        else:
            for big in {'s': ['70000', '-70000', '-32769'], 'i': ['0x10000000000LL', '-0x10000000000LL', '-2147483649LL']}[k]:
                t.append('    n_eval += 2; n_nontriv += 2;')
                t.append('    { g_%s_t big = %s; memcpy(g_mem + 0x200 + offsetof(GS, %s), &big, sizeof big);' % ({'s': 'short', 'i': 'int'}[k], big, f))
                t.append('      int c1 = in_child([&] { tn<S> t = *ps; (void)t; });')
                t.append('      if (c1 != CH_ABORT) R.bad("load", %s::n, "unrepresentable-not-aborted", "guest field %s holds %s, which does not fit the application type; load ended with code " + std::to_string(c1), "unrep");' % (K[i], f, big))
                t.append('      int c2 = in_child([&] { auto v = ps->UNSAFE_unverified(); (void)v; });')
                t.append('      if (c2 != CH_ABORT) R.bad("load-unverified", %s::n, "unrepresentable-not-aborted", "guest field %s holds %s, which does not fit the application type; UNSAFE_unverified ended with code " + std::to_string(c2), "unrep"); }' % (K[i], f, big))
        t.append('  }')
    t.append('}')
    return '\n'.join(t)


def emit_test_fieldwise(n, kinds, abi):
    """Structs with const fields cannot be default-constructed or assigned as a whole (RLBox offers no by-value paths for
    them): layout plus field-wise loads and stores through ps->field."""
    S, GS = 'S%d' % n, 'GS%d' % n
    nf = len(kinds)
    fields = ['f%d' % i for i in range(nf)]
    K = [KINDS[k][0] for k in kinds]
    offs, total, maxal = layout(kinds, abi)
    kstr = ','.join(kinds)
    t = ['static void test_%s() {' % S]
    t.append('  using S = %s; using GS = %s; using XS = rlbox::Sbx_c08_%s<SB>; Rep R{ "%s", "%s" }; const uint64_t kSize = SB::kSize;' % (S, GS, S, S, kstr))
    t.append('  n_eval++;')
    t.append('  if (sizeof(rlbox::tainted_volatile<S, SB>) != sizeof(GS) || sizeof(XS) != sizeof(GS) || sizeof(GS) != %d) R.bad("layout", "-", "size", "sandbox image has size " + std::to_string(sizeof(rlbox::tainted_volatile<S, SB>)) + ", the ABI prescribes " + std::to_string(sizeof(GS)), "-");' % total)
    t.append('  for (uint64_t at : { (uint64_t)0x200, kSize - sizeof(GS) }) for (int sel = 0; sel < 3; sel++) {')
    t.append('    tn<S*> ps; ps.assign_raw_pointer(*g_sb, reinterpret_cast<S*>(g_base + at)); std::string ss = std::to_string(sel) + "@" + std::to_string(at); uintptr_t o;')
    t.append('    GS g; memset(&g, 0, sizeof g);')
    for i, f in enumerate(fields):
        t.append('    setg<%s>(g.%s, sel);' % (K[i], f))
    t.append('    memcpy(g_mem + at, &g, sizeof g); n_eval++; n_nontriv++;')
    t.append('    Outcome oc = attempt([&] {')
    for i, (k, f) in enumerate(zip(kinds, fields)):
        addr = '(&ps->%s.x)' % f if k == 'ns' else '(&ps->%s)' % f
        t.append('      o = reinterpret_cast<uintptr_t>(%s.UNSAFE_unverified()) - (g_base + at); if (o != offsetof(GS, %s) || o != %d) R.bad("layout", %s::n, "field-offset", "field %s lies at offset " + std::to_string(o) + ", the ABI prescribes " + std::to_string(offsetof(GS, %s)), ss);' % (addr, f, offs[i], K[i], f, f))
        t.append('      if (!chkt<%s>(ps->%s, sel)) R.bad("load-field", %s::n, "field-value", "field %s read through the pointer has a wrong value", ss);' % (K[i], f, K[i], f))
        if k != 'ci':
            t.append('      setf<%s>(ps->%s, (sel + 1) %% 3); { GS g2; memcpy(&g2, g_mem + at, sizeof g2); if (!chkg<%s>(g2.%s, (sel + 1) %% 3)) R.bad("store-field", %s::n, "field-value", "field %s written through the pointer has a wrong guest encoding", ss); }' % (K[i], f, K[i], f, K[i], f))
    t.append('    });')
    t.append('    if (oc != RET) R.bad("fieldwise", "-", "abort", "representable field values aborted", ss);')
    t.append('  }')
    t.append('}')
    return '\n'.join(t)


def emit(abi, tier, outdir, nchunks):
    fam = family(tier)
    chunks = [[] for _ in range(nchunks)]
    for n, ks in enumerate(fam):
        chunks[n % nchunks].append((n, ks))
    paths = []
    for ci, ch in enumerate(chunks):
        out = ['// GENERATED by gen/c08_gen.py', '#define C08_ABI_%s' % ('LP32' if abi == 'lp32p64' else abi.upper())] + (['#define C08_PTR64'] if abi == 'lp32p64' else []) + ['#include "c08_pre.hpp"']
        for n, ks in ch:
            out.append(emit_struct(n, ks, abi))
        out.append('#define sandbox_fields_reflection_c08_class_Inner(f, g, ...) f(char, x, FIELD_NORMAL, ##__VA_ARGS__) g() f(long, y, FIELD_NORMAL, ##__VA_ARGS__) g()')
        out.append('#define sandbox_fields_reflection_c08_allClasses(f, ...) f(Inner, c08, ##__VA_ARGS__) ' + ' '.join('f(S%d, c08, ##__VA_ARGS__)' % n for n, _ in ch))
        out.append('rlbox_load_structs_from_library(c08);')
        for n, ks in ch:
            out.append(emit_test(n, ks, abi))
        out.append('''
int main(int argc, char** argv) {
  parse(argc, argv);
  sbx_t sb, other; other.create_sandbox(1); sb.create_sandbox(0);
  g_sb = &sb; g_base = sb.get_sandbox_impl()->base; g_mem = sb.get_sandbox_impl()->mem();
  std::set_terminate(on_terminate);
  std::string only = g_args.replay ? split(g_args.replay, '|')[0] : "";
  struct { const char* n; void (*f)(); } ts[] = { %s };
  for (auto& t : ts) { if (!only.empty() && only != t.n) continue; t.f(); }
  stat("evaluations", n_eval); stat("nontrivial", n_nontriv); stat("structs", (long long)(sizeof ts / sizeof ts[0]));
  sample("{\\"abi\\":\\"%s\\",\\"struct\\":\\"{long f0; char f1[5]; Inner f2;}\\",\\"checks\\":\\"size/alignment/offsets vs independent guest struct and generator layout; load, store, by-value argument and result for all 27 selections of boundary values at two placements\\"}", 1);
  finish();
  return 0;
}
''' % (', '.join('{ "S%d", test_S%d }' % (n, n) for n, _ in ch), abi))
        p = os.path.join(outdir, 'c08_%s_%d.cpp' % (abi, ci))
        with open(p, 'w') as f:
            f.write('\n'.join(out))
        paths.append(p)
    return paths, len(fam)


if __name__ == '__main__':
    abi, tier, outdir, n = sys.argv[1], sys.argv[2], sys.argv[3], int(sys.argv[4])
    os.makedirs(outdir, exist_ok=True)
    ps, ns = emit(abi, tier, outdir, n)
    print('%d structs in %d files' % (ns, len(ps)))
