// Prelude of the generated C08 translation units: field-kind traits (application type, independently
// written guest type, boundary selections) and the generic per-field operations the generated per-struct
// functions are assembled from. ABI selected by C08_ABI_LP32 / C08_ABI_WIDE.
#pragma once
#define RLBOX_USE_EXCEPTIONS
#define RLBOX_USE_STATIC_CALLS() mbox_lookup_symbol
#include "rlbox.hpp"
#include "mbox.hpp"
#include "vcommon.hpp"
#include <sys/wait.h>
#include <unistd.h>
using namespace vc;

#ifdef C08_ABI_WIDE
using AbiT = mb::abi_wide;
using g_short_t = int32_t;
using g_int_t = int64_t;
using g_long_t = int64_t;
using g_ulong_t = uint64_t;
static const char* kAbi0 = "wide";
#else
using AbiT = mb::abi_lp32;
using g_short_t = int16_t;
using g_int_t = int32_t;
using g_long_t = int32_t;
using g_ulong_t = uint32_t;
static const char* kAbi0 = "lp32";
#endif
#ifdef C08_PTR64
// guest pointers as wide as the host's, but still base-relative: equal width is not equal representation
using g_ptr_t = uint64_t;
using Cfg = mb::cfg<uint64_t, AbiT, mb::MASK, 2, false, 16>;
#  undef C08_KABI
#  define C08_KABI "lp32p64"
#else
using g_ptr_t = uint16_t;
using Cfg = mb::cfg<uint16_t, AbiT, mb::MASK, 2>;
#endif
#ifdef C08_KABI
static const char* kAbi = C08_KABI;
#else
static const char* kAbi = kAbi0;
#endif
using SB = mb::mbox<Cfg>;
using sbx_t = rlbox::rlbox_sandbox<SB>;
template<class T>
using tn = rlbox::tainted<T, SB>;
static sbx_t* g_sb;
static uintptr_t g_base;
static uint8_t* g_mem;
static long long n_eval = 0, n_nontriv = 0;

enum E4
{
  E4_A = 0,
  E4_B = 7,
  E4_C = 0x7fffffff
};
struct Inner
{
  char x;
  long y;
};
struct GInner // independent guest layout of Inner
{
  char x;
  g_long_t y;
};
int gfn(long);
static g_int_t guest_gfn(g_long_t) { return 0; }

struct Rep
{
  std::string sname, kinds;
  void bad(const char* part, const std::string& field, const std::string& kind, const std::string& detail, const std::string& sel)
  {
    viol(std::string("C08 abi=") + kAbi + " part=" + part + " kind=" + kind + " field-kind=" + field, sname + "|" + kinds + "|" + part + "|" + sel, sname + "{" + kinds + "} " + part + ": " + detail);
  }
};

// the case being executed, for the terminate handler: a check that fires inside one of RLBox's noexcept struct
// members ends in std::terminate; for representable values that is a violation, not a harness failure
static std::string g_cur_struct, g_cur_kinds, g_cur_sel;
static void on_terminate()
{
  std::string what = "terminate";
  if (auto e = std::current_exception()) {
    try { std::rethrow_exception(e); } catch (const std::exception& ex) { what = ex.what(); } catch (...) {}
  }
  viol(std::string("C08 abi=") + kAbi + " part=roundtrip kind=terminate-on-representable-values field-kind=-", g_cur_struct + "|" + g_cur_kinds + "|roundtrip|" + g_cur_sel,
       g_cur_struct + "{" + g_cur_kinds + "}: marshalling representable field values ended in std::terminate (" + what + ")");
  stat("evaluations", n_eval);
  stat("nontrivial", n_nontriv);
  finish(true, "terminate");
  _exit(0);
}
static uintptr_t fnrep() { return g_sb->get_sandbox_impl()->fn_to_rep((const void*)&guest_gfn); }

// ---- kinds: selections 0,1,2 are representable everywhere; 3 (where present) does not fit the lp32 guest type ----
#define SIMPLE_KIND(NAME, APP, GUEST, V1, V2)                                                                      \
  struct NAME                                                                                                      \
  {                                                                                                                \
    using A = APP;                                                                                                 \
    using G = GUEST;                                                                                               \
    static constexpr const char* n = #APP;                                                                         \
    static A app(int sel) { return sel == 0 ? (A)0 : sel == 1 ? (A)(V1) : (A)(V2); }                               \
    static G guest(int sel) { return sel == 0 ? (G)0 : sel == 1 ? (G)(V1) : (G)(V2); }                             \
  };
SIMPLE_KIND(K_c, char, char, 'x', -128)
SIMPLE_KIND(K_s, short, g_short_t, -2, 32767)
SIMPLE_KIND(K_i, int, g_int_t, -123456, 2147483647)
SIMPLE_KIND(K_l, long, g_long_t, -7, 2147483647L)
SIMPLE_KIND(K_ll, long long, int64_t, -5LL, 0x7fffffffffffffffLL)
SIMPLE_KIND(K_ul, unsigned long, g_ulong_t, 9UL, 0xffffffffUL)
SIMPLE_KIND(K_b, bool, bool, true, true)
SIMPLE_KIND(K_e, E4, E4, E4_B, E4_C)
SIMPLE_KIND(K_f, float, float, 1.5f, -3.0e10f)
SIMPLE_KIND(K_d, double, double, -2.25, 1e300)
SIMPLE_KIND(K_ci, const int, g_int_t, -123456, 2147483647)
#undef SIMPLE_KIND
struct K_p { static constexpr const char* n = "int*"; static uint64_t off(int sel) { return sel == 0 ? 0 : sel == 1 ? 0x1230 : 0xfffc; } };
struct K_fn { static constexpr const char* n = "fnptr"; };
struct K_ca { static constexpr const char* n = "char[5]"; static char el(int sel, int i) { return sel == 0 ? 0 : (char)(sel * 40 + i); } };
struct K_la { static constexpr const char* n = "long[3]"; static long el(int sel, int i) { return sel == 0 ? 0 : sel == 1 ? -(long)(i + 1) : 2147483647L - i; } };
struct K_l2 { static constexpr const char* n = "long[2][3]"; static long el(int sel, int i, int j) { return sel == 0 ? 0 : sel == 1 ? -(long)(10 * i + j + 1) : 2147483647L - (3 * i + j); } };
struct K_pa { static constexpr const char* n = "int*[2]"; static uint64_t off(int sel, int i) { return sel == 0 ? 0 : (uint64_t)(0x100 * sel + 8 * i); } };
struct K_ns { static constexpr const char* n = "nested"; };

template<class T>
static bool eqb(const T& a, const T& b)
{
  return memcmp(&a, &b, sizeof(T)) == 0;
}

// ---- set application side (tainted field) ------------------------------------------------------------
template<class K, class F>
static void setf(F& f, int sel)
{
  if constexpr (std::is_same_v<K, K_ci>) { (void)f; (void)sel; } // const fields cannot be assigned; they keep the value they were loaded with
  else if constexpr (std::is_same_v<K, K_p>) { if (K_p::off(sel)) f.assign_raw_pointer(*g_sb, reinterpret_cast<int*>(g_base + K_p::off(sel))); else f = nullptr; }
  else if constexpr (std::is_same_v<K, K_fn>) { if (sel) f = g_sb->get_sandbox_function_address(gfn); else f = nullptr; }
  else if constexpr (std::is_same_v<K, K_ca>) { for (int i = 0; i < 5; i++) f[i] = K_ca::el(sel, i); }
  else if constexpr (std::is_same_v<K, K_la>) { for (int i = 0; i < 3; i++) f[i] = K_la::el(sel, i); }
  else if constexpr (std::is_same_v<K, K_l2>) { for (int i = 0; i < 2; i++) for (int j = 0; j < 3; j++) f[i][j] = K_l2::el(sel, i, j); }
  else if constexpr (std::is_same_v<K, K_pa>) { for (int i = 0; i < 2; i++) { if (K_pa::off(sel, i)) f[i].assign_raw_pointer(*g_sb, reinterpret_cast<int*>(g_base + K_pa::off(sel, i))); else f[i] = nullptr; } }
  else if constexpr (std::is_same_v<K, K_ns>) { f.x = K_c::app(sel); f.y = K_l::app(sel); }
  else f = K::app(sel);
}
// ---- set guest side (independent guest struct field) -------------------------------------------------
template<class K, class F>
static void setg(F& f, int sel)
{
  if constexpr (std::is_same_v<K, K_p>) f = (g_ptr_t)K_p::off(sel);
  else if constexpr (std::is_same_v<K, K_fn>) f = sel ? (g_ptr_t)fnrep() : 0;
  else if constexpr (std::is_same_v<K, K_ca>) { for (int i = 0; i < 5; i++) f[i] = K_ca::el(sel, i); }
  else if constexpr (std::is_same_v<K, K_la>) { for (int i = 0; i < 3; i++) f[i] = (g_long_t)K_la::el(sel, i); }
  else if constexpr (std::is_same_v<K, K_l2>) { for (int i = 0; i < 2; i++) for (int j = 0; j < 3; j++) f[i][j] = (g_long_t)K_l2::el(sel, i, j); }
  else if constexpr (std::is_same_v<K, K_pa>) { for (int i = 0; i < 2; i++) f[i] = (g_ptr_t)K_pa::off(sel, i); }
  else if constexpr (std::is_same_v<K, K_ns>) { f.x = K_c::guest(sel); f.y = K_l::guest(sel); }
  else { auto v = K::guest(sel); memcpy(const_cast<std::remove_const_t<F>*>(&f), &v, sizeof v); }
}
// ---- check guest side ----------------------------------------------------------------------------------
template<class K, class F>
static bool chkg(const F& f, int sel)
{
  std::remove_const_t<F> want;
  memset(&want, 0, sizeof want);
  setg<K>(want, sel);
  if constexpr (std::is_same_v<K, K_ns>) return f.x == want.x && f.y == want.y;
  else return memcmp(&f, &want, sizeof want) == 0;
}
// ---- check application side (tainted field) --------------------------------------------------------------
template<class K, class F>
static bool chkt(F& f, int sel)
{
  if constexpr (std::is_same_v<K, K_p>) return reinterpret_cast<uintptr_t>(f.UNSAFE_unverified()) == (K_p::off(sel) ? g_base + K_p::off(sel) : 0);
  else if constexpr (std::is_same_v<K, K_fn>) return (const void*)f.UNSAFE_unverified() == (sel ? (const void*)&guest_gfn : nullptr);
  else if constexpr (std::is_same_v<K, K_ca>) { for (int i = 0; i < 5; i++) if (f[i].UNSAFE_unverified() != K_ca::el(sel, i)) return false; return true; }
  else if constexpr (std::is_same_v<K, K_la>) { for (int i = 0; i < 3; i++) if (f[i].UNSAFE_unverified() != K_la::el(sel, i)) return false; return true; }
  else if constexpr (std::is_same_v<K, K_l2>) { for (int i = 0; i < 2; i++) for (int j = 0; j < 3; j++) if (f[i][j].UNSAFE_unverified() != K_l2::el(sel, i, j)) return false; return true; }
  else if constexpr (std::is_same_v<K, K_pa>) { for (int i = 0; i < 2; i++) if (reinterpret_cast<uintptr_t>(f[i].UNSAFE_unverified()) != (K_pa::off(sel, i) ? g_base + K_pa::off(sel, i) : 0)) return false; return true; }
  else if constexpr (std::is_same_v<K, K_ns>) return f.x.UNSAFE_unverified() == K_c::app(sel) && f.y.UNSAFE_unverified() == K_l::app(sel);
  else { auto got = f.UNSAFE_unverified(); auto want = K::app(sel); return eqb<std::remove_const_t<decltype(want)>>(got, want); }
}
// ---- copy between RLBox's guest struct (Sbx_...) and the independent guest struct, field by field ----------
template<class K, class FS, class FG>
static void s2g(const FS& s, FG& g)
{
  if constexpr (std::is_same_v<K, K_ns>) { g.x = s.x; g.y = s.y; }
  else if constexpr (std::is_same_v<K, K_l2>) { for (size_t i = 0; i < 2; i++) for (size_t j = 0; j < 3; j++) g[i][j] = s[i][j]; }
  else if constexpr (std::is_array_v<FG>) { for (size_t i = 0; i < std::extent_v<FG>; i++) g[i] = s[i]; }
  else { auto v = s; memcpy(const_cast<std::remove_const_t<FG>*>(&g), &v, sizeof(FG)); static_assert(sizeof(FS) == sizeof(FG) || std::is_array_v<FG>, "guest field width"); }
}
template<class K, class FS, class FG>
static void g2s(FS& s, const FG& g)
{
  if constexpr (std::is_same_v<K, K_ns>) { s.x = g.x; s.y = g.y; }
  else if constexpr (std::is_same_v<K, K_l2>) { for (size_t i = 0; i < 2; i++) for (size_t j = 0; j < 3; j++) s[i][j] = g[i][j]; }
  else if constexpr (std::is_array_v<FG>) { for (size_t i = 0; i < std::extent_v<FG>; i++) s[i] = g[i]; }
  else memcpy(const_cast<std::remove_const_t<FS>*>(&s), &g, sizeof(FG));
}

// ---- fork isolation for conversions that fire inside noexcept members ---------------------------------------------
enum ChildOut { CH_RET = 0, CH_ABORT = 42, CH_OTHER = 1 };
template<class F>
static int in_child(F&& f)
{
  fflush(stdout);
  pid_t pid = fork();
  if (pid == 0) {
    std::set_terminate([] {
      // std::terminate with RLBox's exception pending = a check fired inside a noexcept member
      if (auto e = std::current_exception()) {
        try { std::rethrow_exception(e); } catch (const std::runtime_error&) { _exit(CH_ABORT); } catch (...) { _exit(CH_OTHER); }
      }
      _exit(CH_OTHER);
    });
    int rc = CH_RET;
    try { f(); } catch (const std::runtime_error&) { rc = CH_ABORT; }
    _exit(rc);
  }
  int st = 0;
  waitpid(pid, &st, 0);
  if (WIFEXITED(st)) return WEXITSTATUS(st);
  return 100 + (WIFSIGNALED(st) ? WTERMSIG(st) : 0);
}
