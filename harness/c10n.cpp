// C10 on the bundled noop backend: the grant/deny-PRESENT branch of copy_memory_or_grant_access /
// copy_memory_or_deny_access and the null-start behaviour of every bulk operation where every range is
// "inside" (membership predicates are constantly true). Only outcomes are meaningful here.
#define BK_NOOP
#include "backends.hpp"
#include "vcommon.hpp"
#include <csetjmp>
#include <csignal>
using namespace vc;
static sigjmp_buf g_jb;
static volatile sig_atomic_t g_armed = 0;
static void on_segv(int) { if (g_armed) siglongjmp(g_jb, 1); _exit(139); }
enum Out { O_RET, O_ABORT, O_CRASH };
template<class F> static Out guarded(F&& f)
{
  if (sigsetjmp(g_jb, 1)) { g_armed = 0; return O_CRASH; }
  g_armed = 1;
  Out o = O_RET;
  try { f(); } catch (const std::runtime_error&) { o = O_ABORT; } catch (const std::bad_alloc&) { o = O_ABORT; }
  g_armed = 0;
  return o;
}
static long long n_eval = 0;
static void expect(const char* op, const std::string& kase, Out o, bool want_abort, bool ok, const std::string& d)
{
  n_eval++;
  std::string sg = std::string("C10 backend=noop op=") + op;
  if (o == O_CRASH) viol(sg + " kind=crash", kase, "crashed: " + d);
  else if (want_abort && o != O_ABORT && !ok) viol(sg + " kind=null-start-proceeded", kase, "a null start did not abort and did not pass null through: " + d);
  else if (!want_abort && (o != O_RET || !ok)) viol(sg + " kind=valid-request-refused-or-wrong", kase, d);
}
int main(int argc, char** argv)
{
  parse(argc, argv);
  signal(SIGSEGV, on_segv);
  sbx_t sb;
  sb.create_sandbox();
  char* buf = (char*)malloc(256);
  for (int i = 0; i < 256; i++) buf[i] = (char)i;
  for (size_t n : { (size_t)1, (size_t)16, (size_t)255 }) {
    std::string k = "noop|" + std::to_string(n);
    { bool copied = true; tn<char*> r = nullptr; Out o = guarded([&] { r = rlbox::copy_memory_or_grant_access(sb, buf, n, false, copied); }); expect("copy_memory_or_grant_access", k, o, false, r.UNSAFE_unverified() == buf && !copied, "granting must hand back the same buffer without copying"); }
    { bool copied = true; tn<char*> t; t.assign_raw_pointer(sb, buf); char* r = nullptr; Out o = guarded([&] { r = rlbox::copy_memory_or_deny_access(sb, t, n, false, copied); }); expect("copy_memory_or_deny_access", k, o, false, r == buf && !copied, "denying must hand back the same buffer without copying"); }
    { bool copied = true; tn<char*> r = sb.malloc_in_sandbox<char>(1); Out o = guarded([&] { r = rlbox::copy_memory_or_grant_access(sb, (char*)nullptr, n, false, copied); }); expect("copy_memory_or_grant_access", k + "|null", o, true, r.UNSAFE_unverified() == nullptr, "null source"); }
    { bool copied = true; tn<char*> t = nullptr; char* r = buf; Out o = guarded([&] { r = rlbox::copy_memory_or_deny_access(sb, t, n, false, copied); }); expect("copy_memory_or_deny_access", k + "|null", o, true, r == nullptr, "null source"); }
    { tn<char*> t = nullptr; Out o = guarded([&] { rlbox::memset(sb, t, 0, n); }); expect("memset", k + "|null", o, true, false, "null destination"); }
    { tn<char*> t = nullptr; tn<char*> s; s.assign_raw_pointer(sb, buf); Out o = guarded([&] { rlbox::memcpy(sb, t, s, n); }); expect("memcpy", k + "|null-dest", o, true, false, "null destination"); }
    { tn<char*> t; t.assign_raw_pointer(sb, buf); Out o = guarded([&] { rlbox::memcpy(sb, t, (const char*)nullptr, n); }); expect("memcpy", k + "|null-src", o, true, false, "null source"); }
    { tn<char*> t = nullptr; Out o = guarded([&] { rlbox::memcmp(sb, t, buf, n); }); expect("memcmp", k + "|null", o, true, false, "null operand"); }
  }
  // element counts whose byte size wraps 2^64: the request exceeds the address space and must be refused, not forwarded to the backend
  {
    short* sbuf = (short*)buf;
    double* dbuf = (double*)buf;
    for (size_t n : { ((size_t)1 << 63) + 2, ((size_t)1 << 63) + 100, (size_t)-1 / 2 + 2 }) {
      std::string k = "noop|short x " + std::to_string(n);
      n_eval++;
      { bool copied = false; Out o = guarded([&] { (void)rlbox::copy_memory_or_grant_access(sb, sbuf, n, false, copied); }); if (o != O_ABORT) viol("C10 backend=noop op=copy_memory_or_grant_access kind=wrapping-count-proceeded", k, "a count of " + std::to_string(n) + " shorts (byte size wraps 2^64) was not refused"); }
      { bool copied = false; tn<short*> t; t.assign_raw_pointer(sb, sbuf); Out o = guarded([&] { (void)rlbox::copy_memory_or_deny_access(sb, t, n, false, copied); }); if (o != O_ABORT) viol("C10 backend=noop op=copy_memory_or_deny_access kind=wrapping-count-proceeded", k, "a count of " + std::to_string(n) + " shorts (byte size wraps 2^64) was not refused"); }
    }
    for (size_t n : { ((size_t)1 << 61) + 1, ((size_t)1 << 62) + 3 }) {
      std::string k = "noop|double x " + std::to_string(n);
      n_eval++;
      { bool copied = false; Out o = guarded([&] { (void)rlbox::copy_memory_or_grant_access(sb, dbuf, n, false, copied); }); if (o != O_ABORT) viol("C10 backend=noop op=copy_memory_or_grant_access kind=wrapping-count-proceeded", k, "a count of " + std::to_string(n) + " doubles (byte size wraps 2^64) was not refused"); }
      { bool copied = false; tn<double*> t; t.assign_raw_pointer(sb, dbuf); Out o = guarded([&] { (void)rlbox::copy_memory_or_deny_access(sb, t, n, false, copied); }); if (o != O_ABORT) viol("C10 backend=noop op=copy_memory_or_deny_access kind=wrapping-count-proceeded", k, "a count of " + std::to_string(n) + " doubles (byte size wraps 2^64) was not refused"); }
    }
  }
  free(buf);
  sb.destroy_sandbox();
  stat("evaluations", n_eval);
  stat("nontrivial", n_eval);
  finish();
  return 0;
}
