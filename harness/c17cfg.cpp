// C17, build-configuration partition: "aborts" must mean that the operation does not return, in every way the library can be
// configured to report a failed check: plain abort(), -fno-exceptions, RLBOX_USE_EXCEPTIONS (with and without compiler support
// for exceptions), a custom abort handler. Each out-of-range case runs in a forked child; the child must not come back from
// the indexing expression. Bundled noop backend (the configuration, not the ABI, is the variable here).
#if defined(C17CFG_CUSTOM)
#  include <unistd.h>
#  define RLBOX_CUSTOM_ABORT(msg) _exit(43)
#endif
#define RLBOX_USE_STATIC_CALLS() rlbox_noop_sandbox_lookup_symbol
#include "rlbox_noop_sandbox.hpp"
#include "rlbox.hpp"
#include "vcommon.hpp"
#include <sys/wait.h>
#include <unistd.h>

using namespace vc;
using SB = rlbox::rlbox_noop_sandbox;
using sbx_t = rlbox::rlbox_sandbox<SB>;
template<class T>
using tn = rlbox::tainted<T, SB>;

#ifndef C17CFG_NAME
#  define C17CFG_NAME "default"
#endif

static long long n_eval = 0, n_nontriv = 0;
static sbx_t* g_sb;

// returns: 0 = the expression returned, 1 = did not return (signal / abort exit / exception)
template<class F>
static int in_child(F&& f)
{
  fflush(stdout);
  pid_t pid = fork();
  if (pid == 0) {
#if defined(__cpp_exceptions)
    try {
      f();
    } catch (...) {
      _exit(42);
    }
#else
    f();
#endif
    _exit(0);
  }
  int st = 0;
  waitpid(pid, &st, 0);
  if (WIFSIGNALED(st)) return 1;
  if (WIFEXITED(st) && (WEXITSTATUS(st) == 42 || WEXITSTATUS(st) == 43)) return 1;
  return 0;
}

struct Holder
{
  long before[4];
  tn<int[4]> arr;
  long after[4];
};

template<class I>
static void cases(const char* iname, std::vector<long long> vals)
{
  for (long long v : vals) {
    if (!representable<I>((i128)v)) continue;
    bool in_range = v >= 0 && v < 4;
    for (int where = 0; where < 2; where++)
      for (int wrapped = 0; wrapped < 2; wrapped++)
        for (int write = 0; write < 2; write++) {
          std::string kase = std::string(C17CFG_NAME) + "|" + iname + "|" + std::to_string(v) + "|" + (where ? "sandbox" : "app") + "|" + (wrapped ? "tainted" : "plain") + "|" + (write ? "write" : "read");
          if (g_args.replay && kase != g_args.replay) continue;
          n_eval++;
          if (!in_range) n_nontriv++;
          int r = in_child([&] {
            static Holder h;
            auto pa = g_sb->malloc_in_sandbox<int[4]>(3);
            pa = pa + 1;
            I idx = (I)v;
            if (where == 0) {
              if (wrapped) { tn<I> t = idx; if (write) h.arr[t] = 7; else { volatile int x = h.arr[t].UNSAFE_unverified(); (void)x; } }
              else { if (write) h.arr[idx] = 7; else { volatile int x = h.arr[idx].UNSAFE_unverified(); (void)x; } }
            } else {
              if (wrapped) { tn<I> t = idx; if (write) (*pa)[t] = 7; else { volatile int x = (*pa)[t].UNSAFE_unverified(); (void)x; } }
              else { if (write) (*pa)[idx] = 7; else { volatile int x = (*pa)[idx].UNSAFE_unverified(); (void)x; } }
            }
          });
          std::string sg = std::string("C17 config=") + C17CFG_NAME + " memory=" + (where ? "sandbox" : "application") + " kind=";
          if (!in_range && r == 0) viol(sg + "out-of-range-index-returned", kase, std::string("index ") + std::to_string(v) + " (" + iname + ") into an array of 4: the indexing expression returned in build configuration " + C17CFG_NAME);
          if (in_range && r != 0) viol(sg + "valid-index-aborted", kase, "valid index did not return");
        }
  }
}

int main(int argc, char** argv)
{
  parse(argc, argv);
  sbx_t sb;
  sb.create_sandbox();
  g_sb = &sb;
  std::vector<long long> vals = { 0, 3, 4, 5, 7, 8, 127, 255, 256, 260, 65536 + 1, 4294967296ll + 2, -1, -2, -128, -32768, -2147483648ll, 2147483647ll, 9223372036854775807ll };
  cases<int>("int", vals);
  cases<unsigned>("unsigned", vals);
  cases<long long>("long long", vals);
  cases<unsigned long>("unsigned long", vals);
  cases<signed char>("signed char", vals);
  cases<unsigned char>("unsigned char", vals);
  cases<short>("short", vals);
  sb.destroy_sandbox();
  stat("evaluations", n_eval);
  stat("nontrivial", n_nontriv);
  setadd("configurations", C17CFG_NAME);
  finish();
  return 0;
}
