// mbox<Cfg>: a foreign-ABI *model* backend for rlbox_sandbox<>, written for verification.
// It implements only the documented impl_* backend interface; every RLBox line under test is
// the unmodified one from /repo/code/include.
//
//  * guest pointers are narrow integers (8/16/32 bit) relative to a region base (non-identity
//    swizzling); null <-> 0
//  * guest integer ABI differs from the host (Cfg::abi)
//  * membership predicates are real: mask mode (2-argument is_in_same_sandbox, wasm-like) or
//    registry mode (3-argument, uses RLBox's find_sandbox_from_example)
//  * several live instances at fixed, replayable virtual addresses (instance index chosen by the
//    harness through create_sandbox(index, ...)), with PROT_NONE guard pages
//  * function pointers are indices into a per-instance table (find-or-insert)
//  * callbacks use per-slot trampolines like the bundled backends; a full table is refused
//    (dynamic_check), like production backends do
//  * symbols: static (RLBOX_USE_STATIC_CALLS = mbox_lookup_symbol) or by name from a table
//    selected by a library id passed to create_sandbox
//
// Include after the RLBOX_* configuration macros and before/after rlbox.hpp (needs rlbox_helpers).
#pragma once
#include <cstdint>
#include <cstdio>
#include <cstdlib>
#include <cstring>
#include <mutex>
#include <sys/mman.h>
#include <utility>
#include <vector>

#include "rlbox_helpers.hpp"

#ifndef MBOX_YIELD
#  define MBOX_YIELD(site) (void)0
#endif

namespace mb {

struct abi_lp32
{
  using S = int16_t;
  using I = int32_t;
  using L = int32_t;
  using LL = int64_t;
  static constexpr const char* name = "lp32";
};
struct abi_wide
{
  using S = int32_t;
  using I = int64_t;
  using L = int64_t;
  using LL = int64_t;
  static constexpr const char* name = "wide";
};
struct abi_host
{
  using S = short;
  using I = int;
  using L = long;
  using LL = long long;
  static constexpr const char* name = "host";
};
// narrow everything: exercises narrowing of short and int too
struct abi_tiny
{
  using S = int8_t;
  using I = int16_t;
  using L = int32_t;
  using LL = int32_t;
  static constexpr const char* name = "tiny";
};

enum Mode
{
  MASK = 0,
  REGISTRY = 1
};

// by-name symbol table supplied by the harness: (library id, name) -> host address of guest code
using symtab_fn = void* (*)(int lib, const char* name);
inline symtab_fn g_symtab = nullptr;

// environment answers for malloc, one-shot, set by the harness
struct malloc_env
{
  bool override_next = false;
  uint64_t answer = 0;
};

template<class PtrT_,
         class Abi_,
         int Mode_ = MASK,
         unsigned NSlots_ = 4,
         bool BoolCreate_ = false,
         unsigned LogSize_ = sizeof(PtrT_) * 8>
struct cfg
{
  using PtrT = PtrT_;
  using Abi = Abi_;
  static constexpr int mode = Mode_;
  static constexpr unsigned nslots = NSlots_;
  static constexpr bool bool_create = BoolCreate_;
  static constexpr unsigned logsize = LogSize_;
  static_assert(LogSize_ <= sizeof(PtrT_) * 8);
};

#ifndef MBOX_BASE0
#  define MBOX_BASE0 0x400000000000ull
#endif

// impl_is_in_same_sandbox must be a plain (non-template, non-overloaded) static member because
// RLBox inspects it with decltype; so it is selected through a base class.
template<class D, uint64_t Mask, int Mode>
struct membership;
template<class D, uint64_t Mask>
struct membership<D, Mask, MASK>
{
  static inline bool impl_is_in_same_sandbox(const void* p1, const void* p2)
  {
    return (reinterpret_cast<uintptr_t>(p1) & ~(uintptr_t)Mask) == (reinterpret_cast<uintptr_t>(p2) & ~(uintptr_t)Mask);
  }
};
template<class D, uint64_t Mask>
struct membership<D, Mask, REGISTRY>
{
  static inline bool impl_is_in_same_sandbox(const void* p1, const void* p2, D* (*finder)(const void*))
  {
    return finder(p1) == finder(p2);
  }
};

template<class Cfg>
class mbox : public membership<mbox<Cfg>, (1ull << Cfg::logsize) - 1, Cfg::mode>
{
public:
  using T_LongLongType = typename Cfg::Abi::LL;
  using T_LongType = typename Cfg::Abi::L;
  using T_IntType = typename Cfg::Abi::I;
  using T_PointerType = typename Cfg::PtrT;
  using T_ShortType = typename Cfg::Abi::S;

  static constexpr uint64_t kSize = 1ull << Cfg::logsize;
  static constexpr uint64_t kMask = kSize - 1;
  // committed (accessible) prefix/suffix of the region
  static constexpr uint64_t kCommitLo = kSize <= (1ull << 20) ? kSize : (1ull << 18);
  static constexpr uint64_t kCommitHi = kSize <= (1ull << 20) ? 0 : (1ull << 16);
  static constexpr uint64_t kSpacing = kSize < (1ull << 20) ? (1ull << 21) : kSize * 2;
  static constexpr uint64_t kPage = 4096;

  struct thread_data_t
  {
    mbox* sandbox;
    uint32_t last_callback_invoked;
  };
  static thread_data_t& td()
  {
    static thread_local thread_data_t d{ nullptr, 0 };
    return d;
  }
  // the instance whose guest code is executing on this thread (for guest functions)
  static mbox* current() { return td().sandbox; }
  // number of membership queries the library made to an instance that is not created (destroyed or never created):
  // the live-sandbox registry must never hand such an instance to the backend
  static long& dead_queries()
  {
    static long n = 0;
    return n;
  }
  // memory size of the NEXT instance to be created (0 = the whole slot): an object that is destroyed and created again can
  // come back with another size, like a production sandbox loaded with another heap limit
  static uint64_t& next_mem_limit()
  {
    static uint64_t n = 0;
    return n;
  }


  // ---- harness-visible state (this is harness code, so public on purpose) ------------------
  uintptr_t base = 0;
  uint64_t mem_limit = kSize; // accessible bytes of this incarnation (<= kSize)
  int index = -1;
  int lib = 0;
  uint64_t brk = 16;
  malloc_env menv;
  std::vector<uint64_t> freed;          // arguments seen by impl_free_in_sandbox
  std::vector<const void*> ftab{ nullptr }; // guest function-pointer table, 0 = null
  void* callback_unique_keys[Cfg::nslots]{};
  void* callbacks[Cfg::nslots]{};
  long n_lookup = 0;
  long n_invoke = 0;
  void* mapping = nullptr;
  size_t mapping_len = 0;

  // registry mode needs no alignment of the region to its size, so it deliberately gets none: a translation that
  // forgets the null short-circuit or masks where it should subtract becomes visible
  ~mbox()
  {
    if (mapping) munmap(mapping, mapping_len); // a history that ended in an abort may leave the instance mapped
  }
  static uintptr_t base_of_index(int idx) { return (uintptr_t)MBOX_BASE0 + (uintptr_t)idx * kSpacing + (Cfg::mode == REGISTRY ? 0x3000 : 0); }
  uint8_t* mem() const { return reinterpret_cast<uint8_t*>(base); }

#ifdef MBOX_INTERNAL_LOOKUP
  // A backend whose function ADDRESSES (what tainted function pointers hold, what get_sandbox_function_address yields)
  // are an internal representation distinct from the pointer used to INVOKE the function: RLBox asks for the former
  // through impl_internal_lookup_symbol. Modelled as the invocation pointer with a tag bit; invoking a tagged pointer
  // is refused, so a mix-up of the two lookups is observable either way.
  using needs_internal_lookup_symbol = void;
  static constexpr uintptr_t kInternalTag = (uintptr_t)1 << 62;
  static void* tag_internal(const void* p) { return reinterpret_cast<void*>(reinterpret_cast<uintptr_t>(p) | kInternalTag); }
  static const void* untag_internal(const void* p) { return reinterpret_cast<const void*>(reinterpret_cast<uintptr_t>(p) & ~kInternalTag); }
  void* impl_internal_lookup_symbol(const char* func_name) { return tag_internal(impl_lookup_symbol(func_name)); }
#endif
  static const void* untag_or_same(const void* p)
  {
#ifdef MBOX_INTERNAL_LOOKUP
    return untag_internal(p);
#else
    return p;
#endif
  }
  uint64_t fn_to_rep(const void* p) const
  {
#ifdef MBOX_INTERNAL_LOOKUP
    p = untag_internal(p);
#endif
    auto& t = const_cast<mbox*>(this)->ftab;
    for (size_t i = 1; i < t.size(); i++)
      if (t[i] == p) return i;
    t.push_back(p);
    return t.size() - 1;
  }
  const void* rep_to_fn(uint64_t r) const
  {
    rlbox::detail::dynamic_check(r < ftab.size(), "mbox: function-pointer index outside the table");
    return ftab[r];
  }

protected:
  template<uint32_t N, typename T_Ret, typename... T_Args>
  static T_Ret callback_trampoline(T_Args... params)
  {
    auto& d = td();
    d.last_callback_invoked = N;
    using T_Func = T_Ret (*)(T_Args...);
    T_Func func = reinterpret_cast<T_Func>(d.sandbox->callbacks[N]);
    return func(params...);
  }

  bool do_create(int idx, int library, bool ok)
  {
    MBOX_YIELD("create");
    if (!ok) return false;
    index = idx;
    lib = library;
    mem_limit = next_mem_limit() && next_mem_limit() <= kSize ? next_mem_limit() : kSize;
#ifdef MBOX_DYNAMIC_ADDR
    {
      size_t len = (size_t)kSize * 2 + 2 * kPage;
      void* m = mmap(nullptr, len, PROT_NONE, MAP_PRIVATE | MAP_ANONYMOUS | MAP_NORESERVE, -1, 0);
      if (m == MAP_FAILED) { perror("mbox mmap"); std::abort(); }
      mapping = m; mapping_len = len;
      uintptr_t b = ((uintptr_t)m + kPage + kMask) & ~(uintptr_t)kMask;
      base = b;
    }
#else
    {
      base = base_of_index(idx);
      size_t len = (size_t)kSize + 2 * kPage;
      if (kSize < kPage) len = 3 * kPage;
      void* want = reinterpret_cast<void*>(base - kPage);
      void* m = mmap(want, len, PROT_NONE, MAP_PRIVATE | MAP_ANONYMOUS | MAP_NORESERVE | MAP_FIXED_NOREPLACE, -1, 0);
      if (m != want) { fprintf(stderr, "mbox: cannot map instance %d at %p\n", idx, want); std::abort(); }
      mapping = m; mapping_len = len;
    }
#endif
    size_t lo = kCommitLo < kPage ? kPage : (size_t)kCommitLo;
    if (mprotect(reinterpret_cast<void*>(base), lo, PROT_READ | PROT_WRITE) != 0) { perror("mprotect"); std::abort(); }
    if (kCommitHi)
      if (mprotect(reinterpret_cast<void*>(base + kSize - kCommitHi), kCommitHi, PROT_READ | PROT_WRITE) != 0) { perror("mprotect"); std::abort(); }
    brk = 16;
    freed.clear();
    ftab.assign(1, nullptr);
    for (unsigned i = 0; i < Cfg::nslots; i++) { callback_unique_keys[i] = nullptr; callbacks[i] = nullptr; }
    return true;
  }

  template<bool B = Cfg::bool_create>
  inline std::enable_if_t<!B, void> impl_create_sandbox(int idx, int library = 0)
  {
    do_create(idx, library, true);
  }
  template<bool B = Cfg::bool_create>
  inline std::enable_if_t<B, bool> impl_create_sandbox(int idx, int library = 0, bool ok = true)
  {
    return do_create(idx, library, ok);
  }

  inline void impl_destroy_sandbox()
  {
    MBOX_YIELD("destroy");
    if (mapping) munmap(mapping, mapping_len);
    mapping = nullptr;
    // like a production backend, a destroyed instance keeps its stale base: if the library still consults it, it
    // "claims" its old address range (and the query is counted, see dead_queries())
    index = -1;
    MBOX_YIELD("destroy-done");
  }

  template<typename T>
  inline void* impl_get_unsandboxed_pointer(T_PointerType p) const
  {
    if constexpr (std::is_function_v<std::remove_pointer_t<T>>) {
      return const_cast<void*>(rep_to_fn((uint64_t)p));
    } else {
#ifdef MBOX_UNCONFINED
      // a backend whose with-context translation is plain base + representation (like the repository's own test backend): a
      // representation beyond the region designates application memory. Only for partitions that exercise checks the
      // library itself makes on a translated pointer (allocation results); everywhere else such a backend breaks confinement
      // by itself.
      return reinterpret_cast<void*>(base + (uint64_t)p);
#else
      return reinterpret_cast<void*>(base + ((uint64_t)p & kMask));
#endif
    }
  }

  template<typename T>
  inline T_PointerType impl_get_sandboxed_pointer(const void* p) const
  {
    if constexpr (std::is_function_v<std::remove_pointer_t<T>>) {
      return static_cast<T_PointerType>(fn_to_rep(p));
    } else {
      return static_cast<T_PointerType>(reinterpret_cast<uintptr_t>(p) - base);
    }
  }

  template<typename T>
  static inline void* impl_get_unsandboxed_pointer_no_ctx(T_PointerType p,
                                                          const void* example_unsandboxed_ptr,
                                                          mbox* (*finder)(const void*))
  {
    if constexpr (std::is_function_v<std::remove_pointer_t<T>> || Cfg::mode == REGISTRY) {
      auto sandbox = finder(example_unsandboxed_ptr);
      rlbox::detail::dynamic_check(sandbox != nullptr, "mbox: example pointer is in no live sandbox");
      return sandbox->template impl_get_unsandboxed_pointer<T>(p);
    } else {
      auto b = reinterpret_cast<uintptr_t>(example_unsandboxed_ptr) & ~(uintptr_t)kMask;
      return reinterpret_cast<void*>(b + ((uint64_t)p & kMask));
    }
  }

  template<typename T>
  static inline T_PointerType impl_get_sandboxed_pointer_no_ctx(const void* p,
                                                                const void* example_unsandboxed_ptr,
                                                                mbox* (*finder)(const void*))
  {
    if constexpr (std::is_function_v<std::remove_pointer_t<T>> || Cfg::mode == REGISTRY) {
      auto sandbox = finder(example_unsandboxed_ptr);
      rlbox::detail::dynamic_check(sandbox != nullptr, "mbox: example pointer is in no live sandbox");
      return sandbox->template impl_get_sandboxed_pointer<T>(p);
    } else {
      return static_cast<T_PointerType>(reinterpret_cast<uintptr_t>(p) & kMask);
    }
  }

  inline T_PointerType impl_malloc_in_sandbox(size_t size)
  {
    MBOX_YIELD("malloc");
    if (menv.override_next) {
      menv.override_next = false;
      return static_cast<T_PointerType>(menv.answer);
    }
    uint64_t rounded = (size + 7) & ~(uint64_t)7;
    if (rounded == 0 || brk + rounded > kCommitLo || brk + rounded < brk) return 0;
    uint64_t r = brk;
    brk += rounded;
    return static_cast<T_PointerType>(r);
  }

  inline void impl_free_in_sandbox(T_PointerType p) { freed.push_back((uint64_t)p); }

  // ---- membership: impl_is_in_same_sandbox comes from the membership<> base ---------------

  inline bool impl_is_pointer_in_sandbox_memory(const void* p)
  {
    if (!mapping) __atomic_add_fetch(&dead_queries(), 1, __ATOMIC_RELAXED);
    MBOX_YIELD("in_sandbox");
    auto a = reinterpret_cast<uintptr_t>(p);
    return base != 0 && a >= base && a - base < mem_limit;
  }
  inline bool impl_is_pointer_in_app_memory(const void* p) { return !impl_is_pointer_in_sandbox_memory(p); }
  inline size_t impl_get_total_memory() { return (size_t)mem_limit; }
  inline void* impl_get_memory_location() { return reinterpret_cast<void*>(base); }

  void* impl_lookup_symbol(const char* func_name)
  {
    n_lookup++;
    rlbox::detail::dynamic_check(g_symtab != nullptr, "mbox: no symbol table installed");
    void* r = g_symtab(lib, func_name);
    rlbox::detail::dynamic_check(r != nullptr, "mbox: symbol not found");
    return r;
  }

  template<typename T, typename T_Converted, typename... T_Args>
  auto impl_invoke_with_func_ptr(T_Converted* func_ptr, T_Args&&... params)
  {
    MBOX_YIELD("invoke");
    auto& d = td();
    auto old_sandbox = d.sandbox;
    d.sandbox = this;
    n_invoke++;
    auto on_exit = rlbox::detail::make_scope_exit([&] { td().sandbox = old_sandbox; });
#ifdef MBOX_INTERNAL_LOOKUP
    rlbox::detail::dynamic_check((reinterpret_cast<uintptr_t>(func_ptr) & kInternalTag) == 0, "mbox: asked to invoke the internal representation of a function address");
#endif
    return (*func_ptr)(params...);
  }

  template<typename T_Ret, typename... T_Args>
  inline T_PointerType impl_register_callback(void* key, void* callback)
  {
    void* chosen_trampoline = nullptr;
    rlbox::detail::compile_time_for<Cfg::nslots>([&](auto I) {
      if (!chosen_trampoline && callback_unique_keys[I.value] == nullptr) {
        callback_unique_keys[I.value] = key;
        callbacks[I.value] = callback;
        chosen_trampoline = reinterpret_cast<void*>(callback_trampoline<I.value, T_Ret, T_Args...>);
      }
    });
    rlbox::detail::dynamic_check(chosen_trampoline != nullptr, "mbox: no free callback slot");
    return static_cast<T_PointerType>(fn_to_rep(chosen_trampoline));
  }

  static inline std::pair<mbox*, void*> impl_get_executed_callback_sandbox_and_key()
  {
    auto& d = td();
    auto sandbox = d.sandbox;
    void* key = sandbox->callback_unique_keys[d.last_callback_invoked];
    return std::make_pair(sandbox, key);
  }

  template<typename T_Ret, typename... T_Args>
  inline void impl_unregister_callback(void* key)
  {
    for (uint32_t i = 0; i < Cfg::nslots; i++) {
      if (callback_unique_keys[i] == key) {
        callback_unique_keys[i] = nullptr;
        callbacks[i] = nullptr;
        break;
      }
    }
  }
};

#define mbox_lookup_symbol(func_name) reinterpret_cast<void*>(&guest_##func_name) /* NOLINT */

} // namespace mb
