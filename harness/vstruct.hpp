// One registered struct shared by the pointer-oriented harnesses, plus the *independently declared*
// guest layouts (fixed-width types, written by hand, not derived from RLBox) for each mbox ABI.
#pragma once
#include <cstdint>

struct VS
{
  long a;
  char c;
  int* p;
  long long ll;
  short arr[3];
  int (*fn)(long);
};

// a second registered struct whose guest size (12 under lp32) is NOT a multiple of its application alignment (8): strides and
// array placement of its guest image cannot be derived from the application's alignment
struct VT
{
  long x;
  long y;
  long z;
};
struct VT_lp32
{
  int32_t x;
  int32_t y;
  int32_t z;
};
struct VT_wide
{
  int64_t x;
  int64_t y;
  int64_t z;
};

// guest layout under lp32 integers with 16-bit pointers
struct VS_lp32_p16
{
  int32_t a;
  char c;
  uint16_t p;
  int64_t ll;
  int16_t arr[3];
  uint16_t fn;
};
// guest layout under lp32 integers with 32-bit pointers
struct VS_lp32_p32
{
  int32_t a;
  char c;
  uint32_t p;
  int64_t ll;
  int16_t arr[3];
  uint32_t fn;
};
// guest layout under lp32 integers with 64-bit (base-relative) pointers
struct VS_lp32_p64
{
  int32_t a;
  char c;
  uint64_t p;
  int64_t ll;
  int16_t arr[3];
  uint64_t fn;
};
// guest layout under wide integers with 16-bit pointers
struct VS_wide_p16
{
  int64_t a;
  char c;
  uint16_t p;
  int64_t ll;
  int32_t arr[3];
  uint16_t fn;
};

#define sandbox_fields_reflection_vlib_class_VS(f, g, ...)                                                         \
  f(long, a, FIELD_NORMAL, ##__VA_ARGS__) g()                                                                      \
  f(char, c, FIELD_NORMAL, ##__VA_ARGS__) g()                                                                      \
  f(int*, p, FIELD_NORMAL, ##__VA_ARGS__) g()                                                                      \
  f(long long, ll, FIELD_NORMAL, ##__VA_ARGS__) g()                                                                \
  f(short[3], arr, FIELD_NORMAL, ##__VA_ARGS__) g()                                                                \
  f(int (*)(long), fn, FIELD_NORMAL, ##__VA_ARGS__) g()

#define sandbox_fields_reflection_vlib_class_VT(f, g, ...)                                                         \
  f(long, x, FIELD_NORMAL, ##__VA_ARGS__) g()                                                                      \
  f(long, y, FIELD_NORMAL, ##__VA_ARGS__) g()                                                                      \
  f(long, z, FIELD_NORMAL, ##__VA_ARGS__) g()

#define sandbox_fields_reflection_vlib_allClasses(f, ...) f(VS, vlib, ##__VA_ARGS__) f(VT, vlib, ##__VA_ARGS__)
