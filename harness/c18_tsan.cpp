// C18 supplement (not a deciding step): the same thread bodies, 16 free-running threads, RLBox's own
// std::shared_timed_mutex locks, built with ThreadSanitizer. A cooperative scheduler's hand-offs are
// happens-before edges that would blind a race detector, so unannotated unsynchronised accesses are looked
// for here instead. mbox lets the kernel choose addresses (TSan's layout forbids arbitrary fixed mappings).
#define MBOX_DYNAMIC_ADDR
#define BK_MBOX
#define BK_MODE REGISTRY
#include "backends.hpp"
#include <atomic>
#include <thread>
static std::atomic<int> g_bad{ 0 };
static thread_local sbx_t* t_sb;
static tn<int> cbfn(sbx_t& sb, tn<int> v)
{
  if (&sb != t_sb) g_bad++;
  int lid = sb.invoke_sandbox_function(lib_id).UNSAFE_unverified();
  if (lid != 1) g_bad++;
  return v + 1;
}
static void body(int t, int iters)
{
  for (int it = 0; it < iters; it++) {
    sbx_t sb;
    t_sb = &sb;
    sb.create_sandbox(t, 1);
    auto p = sb.malloc_in_sandbox<int>();
    auto pp = sb.malloc_in_sandbox<int*>();
    *pp = p;
    tn<int*> back = *pp;
    if (back.UNSAFE_unverified() != p.UNSAFE_unverified()) g_bad++;
    auto cb = sb.register_callback(cbfn);
    int r = sb.invoke_sandbox_function(call_cb_n, cb, t, 1).UNSAFE_unverified();
    if (r != t + 1) g_bad++;
    cb.unregister();
    {
      static int app_objs[16];
      auto a1 = sb.get_app_pointer(&app_objs[t]);
      if ((uint64_t)a1.UNSAFE_sandboxed(sb) != 1) g_bad++; // a fresh sandbox object: its table starts at token 1
      if (sb.lookup_app_ptr(a1.to_tainted()) != &app_objs[t]) g_bad++;
      a1.unregister();
    }
    sb.destroy_sandbox();
  }
}
int main()
{
  std::vector<std::thread> ths;
  for (int t = 0; t < 16; t++) ths.emplace_back(body, t, 200);
  for (auto& th : ths) th.join();
  printf("tsan-supplement wrong-observations=%d\n", g_bad.load());
  return g_bad.load() ? 1 : 0;
}
