// Engine T: call trees of nested invocations and callbacks over two sandboxes, with fault positions.
// Included by c12.cpp and c19.cpp after backends.hpp (mbox static calls, BK_ABI = abi_lp32 or abi_wide).
//
// A tree node is one invocation of the guest function `node` on sandbox s with callback k; the guest calls
// the callback n times; the j-th callback run may perform a nested invocation (child). A fault is injected
// at one position (or two): argument conversion of an invoke, argument conversion in the interceptor,
// callback body, result conversion in the interceptor, result conversion of the invoke.
#pragma once
#include <functional>
#include <memory>
#include <optional>

struct TNode
{
  int s = 0;      // sandbox 0/1
  int k = 0;      // which pool callback is handed to the guest
  int n = 1;      // how often the guest calls it
  int child[2] = { -1, -1 }; // node index invoked from inside the j-th callback run, or -1
  int id = 0;
};
struct Tree
{
  std::vector<TNode> nodes; // nodes[0] is the root
  std::string str(int i = 0) const
  {
    auto& nd = nodes[i];
    std::string r = std::string(nd.s ? "B" : "A") + "k" + std::to_string(nd.k) + "(";
    for (int j = 0; j < nd.n; j++) {
      if (j) r += ",";
      r += nd.child[j] >= 0 ? str(nd.child[j]) : "-";
    }
    return r + ")";
  }
};

enum FaultKind
{
  F_NONE = 0,
  F_INV_ARG,   // argument conversion of the invoke of node x
  F_CB_ARG,    // argument conversion in the interceptor, j-th callback run of node x   (wide ABI only)
  F_CB_BODY,   // callback body throws
  F_CB_RES,    // result conversion in the interceptor                                  (lp32 ABI only)
  F_INV_RES    // result conversion of the invoke of node x                             (wide ABI only)
};
static const char* fkn[] = { "none", "invoke-arg-conversion", "callback-arg-conversion", "callback-body", "callback-result-conversion", "invoke-result-conversion" };
struct Fault
{
  int kind = F_NONE;
  int node = 0;
  int j = 0;
  std::string str() const { return kind == F_NONE ? "-" : std::string(fkn[kind]) + "@" + std::to_string(node) + "." + std::to_string(j); }
};

// nesting depth of a tree string such as "Ak0(Bk1(-),-)" (used by replays to regenerate the right family)
static int tree_str_depth(const std::string& s)
{
  int d = 0, m = 0;
  for (char c : s) {
    if (c == '(') m = std::max(m, ++d);
    else if (c == ')') d--;
    else if (c == '|') break;
  }
  return m;
}

// all trees with depth <= maxdepth and width <= 2
static void gen_trees(int maxdepth, int npool, std::vector<Tree>& out, bool small_k)
{
  // recursive enumeration of shapes: a node = (s, k, n, children)
  std::function<std::vector<Tree>(int)> gen = [&](int depth) {
    std::vector<Tree> res;
    std::vector<Tree> subs;
    if (depth > 1) subs = gen(depth - 1);
    for (int s = 0; s < 2; s++)
      for (int k = 0; k < (small_k ? 2 : npool); k++)
        for (int n = 1; n <= 2; n++) {
          // children choices: each of n slots is none or one of subs
          int opts = (int)subs.size() + 1;
          // cap the fan-out at depth 3 to keep the family finite but complete for shapes: second child restricted to {none, same as first}
          std::vector<std::pair<int, int>> choices;
          for (int c0 = 0; c0 < opts; c0++) {
            if (n == 1) choices.push_back({ c0, 0 });
            else if (depth >= 3) {
              choices.push_back({ c0, 0 });
              if (c0 != 0) choices.push_back({ c0, c0 });
            } else
              for (int c1 = 0; c1 < opts; c1++) choices.push_back({ c0, c1 });
          }
          for (auto [c0, c1] : choices) {
            Tree t;
            TNode root;
            root.s = s;
            root.k = k;
            root.n = n;
            t.nodes.push_back(root);
            auto graft = [&](int slot, int choice) {
              if (choice == 0) return;
              const Tree& sub = subs[choice - 1];
              int base = (int)t.nodes.size();
              for (auto nd : sub.nodes) {
                for (int j = 0; j < 2; j++)
                  if (nd.child[j] >= 0) nd.child[j] += base;
                t.nodes.push_back(nd);
              }
              t.nodes[0].child[slot] = base;
            };
            graft(0, c0);
            if (n == 2) graft(1, c1);
            for (size_t i = 0; i < t.nodes.size(); i++) t.nodes[i].id = (int)i;
            res.push_back(t);
          }
        }
    return res;
  };
  out = gen(maxdepth);
}

// =====================================================================================================
// runner (needs backends.hpp with BK_MBOX static calls included before this header)
// =====================================================================================================
#ifdef BK_MBOX
// app-ABI prototype of the guest entry point (never defined)
short node(long (*cb)(int, short), int base_code, int n, long argfault, int cb_extra_fault_j, int ret_fault);

struct GuestRec
{
  int inst;
  long long code;
  long long result;
};
static std::vector<GuestRec> g_guest_results; // what guest code received back from callbacks
static g_short guest_node(g_ptr cb, g_int base_code, g_int n, g_long argfault, g_int cbx, g_int retf)
{
  auto* s = SB::current();
  (void)argfault;
  auto f = (g_long(*)(g_int, g_short))s->rep_to_fn(cb);
  if (!f) return (g_short)(retf ? 70000 : 1); // null entry point: no callback runs (reported by the exactly-once oracle)
  for (g_int j = 0; j < n; j++) {
    g_long r = f(base_code + j, (g_short)(j == cbx ? 70000 : 0));
    // after a nested invocation the executing instance must still be this one
    g_guest_results.push_back({ SB::current() ? SB::current()->index : -1, (long long)(base_code + j), (long long)r });
  }
  return (g_short)(retf ? 70000 : 1);
}

struct CbRec
{
  int k;          // which pool function ran
  void* sb;       // sandbox reference it received
  long long code; // arguments as seen by the application
  long long extra;
};
struct TRun
{
  const Tree* tree = nullptr;
  std::vector<Fault> faults;
  sbx_t* sb[2] = { nullptr, nullptr };
  std::vector<rlbox::sandbox_callback<long (*)(int, short), SB>>* cbs[2] = { nullptr, nullptr }; // per sandbox, by pool index
  std::vector<CbRec> cblog;
  int injected = 0;
};
static TRun g_run;

static bool fault_at(int kind, int node_id, int j)
{
  for (auto& f : g_run.faults)
    if (f.kind == kind && f.node == node_id && (kind == F_INV_ARG || kind == F_INV_RES || f.j == j)) return true;
  return false;
}

struct InjectedFault : std::runtime_error
{
  InjectedFault() : std::runtime_error("injected callback fault") {}
};

static long run_node(int idx)
{
  const TNode& nd = g_run.tree->nodes[idx];
  sbx_t& sb = *g_run.sb[nd.s];
  long argfault = fault_at(F_INV_ARG, idx, 0) ? (1L << 40) : 0;
  int cbx = -1;
  for (int j = 0; j < nd.n; j++)
    if (fault_at(F_CB_ARG, idx, j)) cbx = j;
  int retf = fault_at(F_INV_RES, idx, 0) ? 1 : 0;
  auto r = sb.invoke_sandbox_function(node, (*g_run.cbs[nd.s])[nd.k], idx * 4, nd.n, argfault, cbx, retf);
  return r.UNSAFE_unverified();
}

template<int K>
static tn<long> pool_cb(sbx_t& sb, tn<int> code, tn<short> extra)
{
  int c = code.UNSAFE_unverified();
  g_run.cblog.push_back({ K, &sb, c, extra.UNSAFE_unverified() });
  int idx = c / 4, j = c % 4;
  if (g_run.tree && idx >= 0 && idx < (int)g_run.tree->nodes.size()) {
    const TNode& nd = g_run.tree->nodes[idx];
    if (j < 2 && nd.child[j] >= 0) run_node(nd.child[j]);
    if (fault_at(F_CB_BODY, idx, j)) throw InjectedFault();
    if (fault_at(F_CB_RES, idx, j)) return tn<long>(1L << 40);
  }
  return tn<long>(100L + c);
}
#endif
