// C06 — integers crossing the ABI boundary keep their value or the operation aborts.
// Engine X: exhaustive / boundary-lattice enumeration of (From, To, value) against a 128-bit oracle.
// Routes: (direct) convert_type_fundamental, (array) convert_type_fundamental_or_array,
//         (store/load) tainted_volatile cells of mbox instances whose ABI realises the pair.
// Build: flag-abort (no exceptions) so that 2^32 sweeps are affordable.
#include <cstdint>
#include <csetjmp>
static thread_local int g_abort_flag = 0;
#define RLBOX_CUSTOM_ABORT(msg) (g_abort_flag = 1)
#include "rlbox.hpp"
#include "mbox.hpp"
#include "vcommon.hpp"
#include "vstruct.hpp"
rlbox_load_structs_from_library(vlib);

using namespace vc;

template<class... Ts>
struct tl
{};
using Ints = tl<bool, char, signed char, unsigned char, short, unsigned short, int, unsigned, long, unsigned long,
                long long, unsigned long long, char16_t, char32_t, wchar_t>;

template<class F, class... Ts>
void for_types(tl<Ts...>, F f)
{
  (f((Ts*)nullptr), ...);
}

static bool g_thorough = false;
static uint64_t g_pair_idx = 0;
static const char* g_only_from = nullptr;
static const char* g_only_to = nullptr;
static bool g_replaying = false;
static i128 g_replay_val = 0;

template<class From, class To>
static inline void one_direct(From v, const char* route)
{
  To to = (To)0x5a;
  g_abort_flag = 0;
  rlbox::detail::convert_type_fundamental(to, v);
  bool ab = g_abort_flag;
  i128 m = std::is_signed_v<From> ? (i128)v : (i128)(u128)v;
  if constexpr (std::is_same_v<From, bool>) m = v ? 1 : 0;
  bool rep = representable<To>(m);
  if (rep) {
    i128 got = std::is_signed_v<To> ? (i128)to : (i128)(u128)to;
    if (ab)
      viol(std::string("C06 route=") + route + " from=" + tname<From>() + " to=" + tname<To>() + " kind=spurious-abort",
           std::string(route) + ":" + tname<From>() + ":" + tname<To>() + ":" + str(m),
           "value " + str(m) + " is representable in the destination but the conversion aborted");
    else if (got != m)
      viol(std::string("C06 route=") + route + " from=" + tname<From>() + " to=" + tname<To>() + " kind=value-changed",
           std::string(route) + ":" + tname<From>() + ":" + tname<To>() + ":" + str(m),
           "value " + str(m) + " arrived as " + str(got));
  } else if (!ab) {
    i128 got = std::is_signed_v<To> ? (i128)to : (i128)(u128)to;
    viol(std::string("C06 route=") + route + " from=" + tname<From>() + " to=" + tname<To>() + " kind=silent-wrap",
         std::string(route) + ":" + tname<From>() + ":" + tname<To>() + ":" + str(m),
         "value " + str(m) + " is not representable in the destination, no abort, destination holds " + str(got));
  }
}

static long long n_eval = 0, n_nontriv = 0, n_mustabort = 0;

template<class From, class To>
static void pair_direct()
{
  if constexpr (std::is_same_v<To, bool>) {
    return; // scope decision, see DESIGN.md C06
  } else {
    uint64_t idx = g_pair_idx++;
    if (g_replaying) {
      if (strcmp(g_only_from, tname<From>()) || strcmp(g_only_to, tname<To>())) return;
      one_direct<From, To>((From)g_replay_val, "direct");
      n_eval++;
      return;
    }
    if (!mine(idx)) return;
    setadd("pairs", std::string(tname<From>()) + "->" + tname<To>());
    auto count = [&](From v) {
      i128 m = std::is_signed_v<From> ? (i128)v : (i128)(u128)v;
      n_eval++;
      if (m < 0 || m > 127) n_nontriv++;
      if (!representable<To>(m)) n_mustabort++;
    };
    if constexpr (sizeof(From) <= 2) {
      // complete
      i128 lo = std::is_same_v<From, bool> ? 0 : (i128)std::numeric_limits<From>::min();
      i128 hi = std::is_same_v<From, bool> ? 1 : (i128)std::numeric_limits<From>::max();
      for (i128 x = lo; x <= hi; x++) {
        one_direct<From, To>((From)x, "direct");
        count((From)x);
      }
      if (idx < 3) sample(std::string("{\"route\":\"direct\",\"from\":\"") + tname<From>() + "\",\"to\":\"" + tname<To>() + "\",\"values\":\"all " + str(hi - lo + 1) + "\"}");
    } else if (sizeof(From) == 4 && g_thorough) {
      i128 lo = (i128)std::numeric_limits<From>::min();
      i128 hi = (i128)std::numeric_limits<From>::max();
      long long before = g_nviol;
      for (i128 x = lo; x <= hi; x++) {
        From v = (From)x;
        To to = (To)0x5a;
        g_abort_flag = 0;
        rlbox::detail::convert_type_fundamental(to, v);
        bool rep = representable<To>(x);
        i128 got = std::is_signed_v<To> ? (i128)to : (i128)(u128)to;
        if (__builtin_expect((rep && (g_abort_flag || got != x)) || (!rep && !g_abort_flag), 0)) {
          if (g_nviol - before < 5) one_direct<From, To>(v, "direct");
        }
      }
      n_eval += (long long)(hi - lo + 1);
      n_nontriv += (long long)(hi - lo + 1) - 128;
      stat("sweeps_2e32");
    } else {
      for (From v : lattice<From>()) {
        one_direct<From, To>(v, "direct");
        count(v);
      }
    }
  }
}

// ---- arrays ------------------------------------------------------------------------------
template<class From, class To>
static std::vector<From> classes()
{
  std::set<i128> s{ 0, 1, -1, 127, 128, 255, 256 };
  auto add = [&](i128 v) {
    s.insert(v);
    s.insert(v + 1);
    s.insert(v - 1);
  };
  add((i128)std::numeric_limits<To>::min());
  add((i128)(u128)std::numeric_limits<To>::max());
  add((i128)std::numeric_limits<From>::min());
  add((i128)(u128)std::numeric_limits<From>::max());
  std::vector<From> out;
  for (i128 v : s)
    if (representable<From>(v)) out.push_back((From)v);
  return out;
}

template<class From, class To, size_t N, bool StdArr>
static void arr_case(const std::vector<From>& cls, const std::vector<int>& pick)
{
  bool all_rep = true;
  std::string desc;
  i128 vals[N];
  for (size_t i = 0; i < N; i++) {
    From v = cls[pick[i]];
    vals[i] = std::is_signed_v<From> ? (i128)v : (i128)(u128)v;
    if (!representable<To>(vals[i])) all_rep = false;
    desc += (i ? "," : "") + str(vals[i]);
  }
  g_abort_flag = 0;
  bool ok = true;
  i128 got[N];
  if constexpr (StdArr) {
    std::array<From, N> from;
    std::array<To, N> to;
    for (size_t i = 0; i < N; i++) {
      from[i] = cls[pick[i]];
      to[i] = (To)0x5a;
    }
    rlbox::detail::convert_type_fundamental_or_array(to, from);
    for (size_t i = 0; i < N; i++) got[i] = std::is_signed_v<To> ? (i128)to[i] : (i128)(u128)to[i];
  } else {
    From from[N];
    To to[N];
    for (size_t i = 0; i < N; i++) {
      from[i] = cls[pick[i]];
      to[i] = (To)0x5a;
    }
    rlbox::detail::convert_type_fundamental_or_array(to, from);
    for (size_t i = 0; i < N; i++) got[i] = std::is_signed_v<To> ? (i128)to[i] : (i128)(u128)to[i];
  }
  for (size_t i = 0; i < N; i++)
    if (got[i] != vals[i]) ok = false;
  n_eval++;
  n_nontriv++;
  if (!all_rep) n_mustabort++;
  std::string k = std::string("array:") + tname<From>() + ":" + tname<To>() + ":" + std::to_string(N) + (StdArr ? "s" : "c") + ":" + desc;
  std::string sg = std::string("C06 route=array from=") + tname<From>() + " to=" + tname<To>();
  if (all_rep && g_abort_flag) viol(sg + " kind=spurious-abort", k, "all elements representable but conversion aborted: " + desc);
  else if (all_rep && !ok) viol(sg + " kind=value-changed", k, "elements changed: " + desc);
  else if (!all_rep && !g_abort_flag) viol(sg + " kind=silent-wrap", k, "an element is not representable, no abort: " + desc);
}

template<class From, class To, size_t N, bool StdArr>
static void arr_all()
{
  auto cls = classes<From, To>();
  std::vector<int> pick(N, 0);
  while (true) {
    arr_case<From, To, N, StdArr>(cls, pick);
    size_t i = 0;
    for (; i < N; i++) {
      if (++pick[i] < (int)cls.size()) break;
      pick[i] = 0;
    }
    if (i == N) break;
  }
}

template<class From, class To>
static void pair_array()
{
  if constexpr (std::is_same_v<To, bool> || std::is_same_v<From, bool>) {
    return;
  } else {
    uint64_t idx = g_pair_idx++;
    if (g_replaying) return;
    if (!mine(idx)) return;
    arr_all<From, To, 1, false>();
    arr_all<From, To, 2, false>();
    arr_all<From, To, 2, true>();
    if (g_thorough || sizeof(From) != sizeof(To)) arr_all<From, To, 3, false>();
    if (idx % 40 == 0) sample(std::string("{\"route\":\"array\",\"from\":\"") + tname<From>() + "\",\"to\":\"" + tname<To>() + "\",\"lengths\":[1,2,3],\"classes\":" + std::to_string(classes<From, To>().size()) + "}");
  }
}

// ---- store / load through sandbox memory ------------------------------------------------------
// ---- call / callback routes: guest functions written in the guest's own types ----
static i128 g_guest_seen = 0;       // what the guest function / guest caller received
static long g_guest_calls = 0;
static i128 g_guest_give = 0;       // the value the guest returns / passes to the callback
static i128 g_host_seen = 0;        // what the application's callback body received
static i128 g_host_give = 0;        // what the application's callback body returns
template<class G>
static i128 as_i128(G g) { return std::is_signed_v<G> ? (i128)g : (i128)(u128)g; }
template<class G>
static G guest_take(G v) { g_guest_seen = as_i128(v); g_guest_calls++; return (G)0; }
template<class G>
static G guest_give() { g_guest_calls++; return (G)g_guest_give; }
template<class SBT, class G>
static typename SBT::T_IntType guest_call_cb(typename SBT::T_PointerType cb)
{
  g_guest_calls++;
  auto f = (G(*)(G))SBT::current()->rep_to_fn(cb);
  G r = f((G)g_guest_give);
  g_guest_seen = as_i128(r);
  return 0;
}

template<class SBT>
static typename SBT::T_IntType guest_take_vt(rlbox::Sbx_vlib_VT<SBT> v) { g_guest_seen = as_i128(v.y); g_guest_calls++; return 0; }
template<class SBT>
static rlbox::Sbx_vlib_VT<SBT> guest_give_vt()
{
  rlbox::Sbx_vlib_VT<SBT> v{};
  v.x = 1;
  v.y = (decltype(v.y))g_guest_give;
  v.z = 2;
  return v;
}
int take_vt(VT v);
VT give_vt();

template<class Abi>
struct SL
{
  using Cfg = mb::cfg<uint16_t, Abi, mb::MASK, 2>;
  using SB = mb::mbox<Cfg>;
  using sbx_t = rlbox::rlbox_sandbox<SB>;
  template<class T>
  using tn = rlbox::tainted<T, SB>;

  template<class T>
  using guest_t = typename sbx_t::template convert_to_sandbox_equivalent_nonclass_t<T>;

  template<class T, class From>
  static void store_pair(sbx_t& sb, tn<T*> p)
  {
    using G = guest_t<T>;
    uint64_t idx = g_pair_idx++;
    if (g_replaying || !mine(idx)) return;
    setadd("store_pairs", std::string(Abi::name) + ":" + tname<From>() + "->cell(" + tname<T>() + ")=" + std::to_string(sizeof(G) * 8) + (std::is_signed_v<G> ? "s" : "u"));
    uint8_t* cell = (uint8_t*)p.UNSAFE_unverified();
    auto L = lattice<From>();
    for (From v : L) {
      for (int form = 0; form < 2; form++) {
        memset(cell - 8, 0xA5, 24);
        g_abort_flag = 0;
        if (form == 0) {
          *p = v;
        } else {
          tn<From> tv = v;
          // tainted<From> can be stored only into a cell of the same type
          if constexpr (std::is_same_v<From, T>) *p = tv; else continue;
        }
        i128 m = std::is_signed_v<From> ? (i128)v : (i128)(u128)v;
        if constexpr (std::is_same_v<From, bool>) m = v ? 1 : 0;
        bool rep = representable<G>(m);
        G g;
        memcpy(&g, cell, sizeof g);
        i128 got = std::is_signed_v<G> ? (i128)g : (i128)(u128)g;
        n_eval++;
        if (m < 0 || m > 127) n_nontriv++;
        if (!rep) n_mustabort++;
        std::string sg = std::string("C06 route=store abi=") + Abi::name + " from=" + tname<From>() + " cell=" + tname<T>() + (form ? " form=tainted" : " form=plain");
        std::string k = std::string("store:") + Abi::name + ":" + tname<From>() + ":" + tname<T>() + ":" + str(m);
        if (rep && g_abort_flag) viol(sg + " kind=spurious-abort", k, "representable value " + str(m) + " aborted");
        else if (rep && got != m) viol(sg + " kind=value-changed", k, "stored " + str(m) + " cell holds " + str(got));
        else if (!rep && !g_abort_flag) viol(sg + " kind=silent-wrap", k, "stored " + str(m) + " not representable in guest type, no abort, cell holds " + str(got));
        // bytes around the cell are untouched (C07 does this thoroughly)
        for (int i = 1; i <= 8; i++)
          if (cell[-i] != 0xA5 || cell[sizeof(G) - 1 + i] != 0xA5) {
            viol(sg + " kind=neighbour-bytes", k, "bytes outside the guest cell changed");
            break;
          }
      }
    }
  }

  template<class T>
  static void load_type(sbx_t& sb, tn<T*> p)
  {
    using G = guest_t<T>;
    uint64_t idx = g_pair_idx++;
    if (g_replaying || !mine(idx)) return;
    uint8_t* cell = (uint8_t*)p.UNSAFE_unverified();
    for (G g : lattice<G>()) {
      memcpy(cell, &g, sizeof g);
      i128 m = std::is_signed_v<G> ? (i128)g : (i128)(u128)g;
      bool rep = representable<T>(m);
      for (int path = 0; path < 3; path++) {
        g_abort_flag = 0;
        T got_t{};
        if (path == 0) {
          tn<T> x = *p;
          got_t = x.UNSAFE_unverified();
        } else if (path == 1) {
          got_t = (*p).UNSAFE_unverified();
        } else {
          got_t = p->copy_and_verify([](T v) { return v; });
        }
        i128 got = std::is_signed_v<T> ? (i128)got_t : (i128)(u128)got_t;
        n_eval++;
        if (m < 0 || m > 127) n_nontriv++;
        if (!rep) n_mustabort++;
        std::string sg = std::string("C06 route=load abi=") + Abi::name + " cell=" + tname<T>() + " path=" + std::to_string(path);
        std::string k = std::string("load:") + Abi::name + ":" + tname<T>() + ":" + str(m);
        if (rep && g_abort_flag) viol(sg + " kind=spurious-abort", k, "representable value " + str(m) + " aborted");
        else if (rep && got != m) viol(sg + " kind=value-changed", k, "cell holds " + str(m) + " loaded " + str(got));
        else if (!rep && !g_abort_flag) viol(sg + " kind=silent-wrap", k, "cell holds " + str(m) + " not representable in app type, no abort, loaded " + str(got));
      }
    }
  }

  template<class T>
  static void cell_type(sbx_t& sb)
  {
    auto p = sb.template malloc_in_sandbox<T>(4);
    p = p + 1;
    using Srcs = tl<bool, char, signed char, unsigned char, short, unsigned short, int, unsigned, long, unsigned long, long long, unsigned long long>;
    for_types(Srcs{}, [&](auto* f) {
      using From = std::remove_pointer_t<decltype(f)>;
      store_pair<T, From>(sb, p);
    });
    load_type<T>(sb, p);
  }

  // Buffers handed over with copy_memory_or_grant_access / taken back with copy_memory_or_deny_access (copy branch: mbox
  // cannot grant or deny access): every element the guest sees / the application receives is the element that was sent.
  template<class TQ>
  static void buf_type(sbx_t& sb)
  {
    using T = std::remove_cv_t<TQ>; // TQ may be const-qualified: a const buffer handed over with copy_memory_or_grant_access
    using G = guest_t<T>;
    setadd("buffer_types", std::string(Abi::name) + ":" + (std::is_const_v<TQ> ? "const " : "") + tname<T>() + "->" + std::to_string(sizeof(G) * 8) + (std::is_signed_v<G> ? "s" : "u"));
    auto L = lattice<T>();
    for (size_t k = 0; k < L.size(); k++) {
      T arr[3] = { L[k], L[(k + 7) % L.size()], L[L.size() - 1 - k] };
      // application -> sandbox
      {
        g_abort_flag = 0;
        bool copied = false;
        TQ* src = arr;
        auto p = rlbox::copy_memory_or_grant_access(sb, src, 3, false, copied);
        uint8_t* raw = (uint8_t*)p.UNSAFE_unverified();
        for (int i = 0; i < 3 && raw; i++) {
          i128 m = std::is_signed_v<T> ? (i128)arr[i] : (i128)(u128)arr[i];
          G g;
          memcpy(&g, raw + i * sizeof(G), sizeof g);
          i128 got = std::is_signed_v<G> ? (i128)g : (i128)(u128)g;
          n_eval++;
          if (m < 0 || m > 127) n_nontriv++;
          std::string sg = std::string("C06 route=grant-copy abi=") + Abi::name + " elem=" + (std::is_const_v<TQ> ? "const " : "") + tname<T>();
          std::string kk = std::string("buf:") + Abi::name + ":" + tname<T>() + ":" + str(m);
          if (g_abort_flag) continue; // refused as a whole
          if (got != m) { viol(sg + (representable<G>(m) ? " kind=value-changed" : " kind=silent-wrap"), kk, "element " + std::to_string(i) + " sent " + str(m) + ", the guest's element holds " + str(got)); break; }
        }
        if (raw) sb.free_in_sandbox(p);
      }
      // sandbox -> application (the deny direction copies INTO the buffer type, so only for non-const elements)
      if constexpr (!std::is_const_v<TQ>) {
        auto q = sb.template malloc_in_sandbox<long long>(4);
        uint8_t* raw = (uint8_t*)q.UNSAFE_unverified();
        i128 ms[3];
        bool all_rep = true;
        for (int i = 0; i < 3; i++) {
          G g = (G)arr[i];
          memcpy(raw + i * sizeof(G), &g, sizeof g);
          ms[i] = std::is_signed_v<G> ? (i128)g : (i128)(u128)g;
          all_rep = all_rep && representable<T>(ms[i]);
        }
        g_abort_flag = 0;
        bool copied = false;
        T* out = rlbox::copy_memory_or_deny_access(sb, rlbox::sandbox_reinterpret_cast<T*>(q), 3, false, copied);
        for (int i = 0; i < 3 && out && !g_abort_flag; i++) {
          i128 got = std::is_signed_v<T> ? (i128)out[i] : (i128)(u128)out[i];
          n_eval++;
          std::string sg = std::string("C06 route=deny-copy abi=") + Abi::name + " elem=" + tname<T>();
          std::string kk = std::string("buf:") + Abi::name + ":" + tname<T>() + ":" + str(ms[i]);
          if (got != ms[i]) { viol(sg + (all_rep ? " kind=value-changed" : " kind=silent-wrap"), kk, "the guest's element " + std::to_string(i) + " holds " + str(ms[i]) + ", the application received " + str(got)); break; }
        }
        if (out && copied) free(out);
        sb.free_in_sandbox(q);
      }
    }
  }

  template<class T>
  static tn<T> host_cb(sbx_t&, tn<T> v)
  {
    g_host_seen = as_i128(v.UNSAFE_unverified());
    return (T)g_host_give;
  }
  // Integers of the parameter's own type as invocation arguments and results, and as callback arguments and results
  // (flag-abort build: after a flagged abort the observation is ignored, the flag is the outcome).
  template<class T>
  static void call_type(sbx_t& sb)
  {
    using G = guest_t<T>;
    uint64_t idx = g_pair_idx++;
    if (g_replaying || !mine(idx)) return;
    setadd("call_types", std::string(Abi::name) + ":" + tname<T>() + "<->" + std::to_string(sizeof(G) * 8) + (std::is_signed_v<G> ? "s" : "u"));
    using FnT = T(T);
    using GiveT = T();
    using CallerT = int(FnT*);
    auto report = [&](const char* route, i128 m, bool rep, i128 got) {
      n_eval++;
      if (m < 0 || m > 127) n_nontriv++;
      if (!rep) n_mustabort++;
      std::string sg = std::string("C06 route=") + route + " abi=" + Abi::name + " type=" + tname<T>();
      std::string k = std::string(route) + ":" + Abi::name + ":" + tname<T>() + ":" + str(m);
      if (rep && g_abort_flag) viol(sg + " kind=spurious-abort", k, "representable value " + str(m) + " aborted");
      else if (rep && got != m) viol(sg + " kind=value-changed", k, "sent " + str(m) + " received " + str(got));
      else if (!rep && !g_abort_flag) viol(sg + " kind=silent-wrap", k, "value " + str(m) + " is not representable in the destination type, no abort, destination received " + str(got));
    };
    // 1. application -> guest parameter (plain, tainted)
    for (T v : lattice<T>()) {
      i128 m = as_i128(v);
      for (int form = 0; form < 2; form++) {
        g_abort_flag = 0;
        g_guest_seen = -7777;
        if (form == 0) (void)sb.template INTERNAL_invoke_with_func_ptr<FnT>("take", (void*)&guest_take<G>, v);
        else { tn<T> tv = v; (void)sb.template INTERNAL_invoke_with_func_ptr<FnT>("take", (void*)&guest_take<G>, tv); }
        report(form ? "invoke-arg-tainted" : "invoke-arg", m, representable<G>(m), g_guest_seen);
      }
    }
    // 2. guest result -> application
    for (G g : lattice<G>()) {
      i128 m = as_i128(g);
      g_guest_give = m;
      g_abort_flag = 0;
      T r = sb.template INTERNAL_invoke_with_func_ptr<GiveT>("give", (void*)&guest_give<G>).UNSAFE_unverified();
      report("invoke-result", m, representable<T>(m), as_i128(r));
    }
    // 3./4. callback argument (guest -> application) and callback result (application -> guest)
    {
      auto cb = sb.register_callback(host_cb<T>);
      for (G g : lattice<G>()) {
        i128 m = as_i128(g);
        g_guest_give = m;
        g_host_give = 0;
        g_host_seen = -7777;
        g_abort_flag = 0;
        (void)sb.template INTERNAL_invoke_with_func_ptr<CallerT>("call_cb", (void*)&guest_call_cb<SB, G>, cb);
        report("callback-arg", m, representable<T>(m), g_host_seen);
      }
      for (T v : lattice<T>()) {
        i128 m = as_i128(v);
        g_guest_give = 0;
        g_host_give = m;
        g_guest_seen = -7777;
        g_abort_flag = 0;
        (void)sb.template INTERNAL_invoke_with_func_ptr<CallerT>("call_cb", (void*)&guest_call_cb<SB, G>, cb);
        report("callback-result", m, representable<G>(m), g_guest_seen);
      }
      cb.unregister();
    }
  }

  // Integer FIELDS of a registered struct moved as a whole: store / load of the struct in sandbox memory, by-value argument, by-value result
  static void struct_routes(sbx_t& sb)
  {
    uint64_t idx = g_pair_idx++;
    if (g_replaying || !mine(idx)) return;
    using GS = rlbox::Sbx_vlib_VT<SB>;
    using GL = decltype(GS{}.y);
    setadd("call_types", std::string(Abi::name) + ":struct field long<->" + std::to_string(sizeof(GL) * 8));
    auto p = sb.template malloc_in_sandbox<VT>(2);
    GS* raw = (GS*)p.UNSAFE_unverified();
    auto report = [&](const char* route, i128 m, bool rep, i128 got) {
      n_eval++;
      if (m < 0 || m > 127) n_nontriv++;
      if (!rep) n_mustabort++;
      std::string sg = std::string("C06 route=") + route + " abi=" + Abi::name + " type=long";
      std::string k = std::string(route) + ":" + Abi::name + ":long:" + str(m);
      if (rep && g_abort_flag) viol(sg + " kind=spurious-abort", k, "representable value " + str(m) + " aborted");
      else if (rep && got != m) viol(sg + " kind=value-changed", k, "field sent as " + str(m) + " received as " + str(got));
      else if (!rep && !g_abort_flag) viol(sg + " kind=silent-wrap", k, "field value " + str(m) + " is not representable in the destination type, no abort, destination received " + str(got));
    };
    for (long v : lattice<long>()) {
      i128 m = as_i128(v);
      tn<VT> s;
      s.x = 1;
      s.y = v;
      s.z = 2;
      memset((void*)raw, 0, sizeof(GS));
      g_abort_flag = 0;
      *p = s;
      report("struct-store", m, representable<GL>(m), as_i128(raw->y));
      g_abort_flag = 0;
      g_guest_seen = -7777;
      (void)sb.template INTERNAL_invoke_with_func_ptr<decltype(take_vt)>("take_vt", (void*)&guest_take_vt<SB>, s);
      report("struct-argument", m, representable<GL>(m), g_guest_seen);
    }
    for (GL g : lattice<GL>()) {
      i128 m = as_i128(g);
      raw->x = 1;
      raw->y = g;
      raw->z = 2;
      g_abort_flag = 0;
      tn<VT> s = *p;
      report("struct-load", m, representable<long>(m), as_i128(s.y.UNSAFE_unverified()));
      g_guest_give = m;
      g_abort_flag = 0;
      tn<VT> r = sb.template INTERNAL_invoke_with_func_ptr<decltype(give_vt)>("give_vt", (void*)&guest_give_vt<SB>);
      report("struct-result", m, representable<long>(m), as_i128(r.y.UNSAFE_unverified()));
    }
    sb.free_in_sandbox(p);
  }

  static void run(int inst)
  {
    sbx_t sb;
    sb.create_sandbox(inst);
#ifdef C06_BUF
    // one element type per build: the library may refuse a type for this ABI at compile time, which must not hide the others
    buf_type<C06_BUF>(sb);
    sb.destroy_sandbox();
    return;
#endif
    using Cells = tl<char, signed char, unsigned char, short, unsigned short, int, unsigned, long, unsigned long, long long, unsigned long long, char16_t, char32_t>;
    for_types(Cells{}, [&](auto* t) {
      using T = std::remove_pointer_t<decltype(t)>;
      cell_type<T>(sb);
      call_type<T>(sb);
    });
    struct_routes(sb);
    sb.destroy_sandbox();
  }
};

int main(int argc, char** argv)
{
  parse(argc, argv);
  g_thorough = has_flag("--thorough");
  std::string rp;
  std::vector<std::string> f;
  if (g_args.replay) {
    f = split(g_args.replay, ':');
    if (f[0] == "direct") {
      g_replaying = true;
      g_only_from = f[1].c_str();
      g_only_to = f[2].c_str();
      g_replay_val = parse_i128(f[3]);
    }
    // array/store/load replays simply re-run the whole (cheap) family below
  }
#ifdef C06_DIRECT
  for_types(Ints{}, [&](auto* a) {
    using From = std::remove_pointer_t<decltype(a)>;
    for_types(Ints{}, [&](auto* b) {
      using To = std::remove_pointer_t<decltype(b)>;
      pair_direct<From, To>();
    });
  });
#endif
  if (!g_replaying) {
    if (g_args.replay) g_args.parts = 1;
#ifdef C06_ARRAY
    for_types(Ints{}, [&](auto* a) {
      using From = std::remove_pointer_t<decltype(a)>;
      for_types(Ints{}, [&](auto* b) {
        using To = std::remove_pointer_t<decltype(b)>;
        pair_array<From, To>();
      });
    });
#endif
#ifdef C06_SL
    SL<mb::C06_SL>::run(0);
#endif
  }
  stat("evaluations", n_eval);
  stat("nontrivial", n_nontriv);
  stat("must_abort_cases", n_mustabort);
  finish();
  return 0;
}
