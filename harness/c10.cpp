// C10 — bulk memory operations never straddle or leave the sandbox.
// Engine X: operation x sandbox-side start class x application-side start class x extent lattice
// (0 .. 2^64-1) x element size x size-operand form, judged by a three-valued interval model:
//   MUST_NOT_PROCEED (null start)  -> abort, or the documented null pass-through with no memory touched
//   MUST_ABORT                     -> abort / allocation failure, memory untouched, never a crash
//   MUST_PROCEED                   -> returns, and exactly the reference bytes changed / were read
//   UNCONSTRAINED                  -> empty requests; raw application pointers wholly inside a sandbox
#define RLBOX_USE_EXCEPTIONS
#include "rlbox.hpp"
#include "mbox.hpp"
#include "vcommon.hpp"
#include <csetjmp>
#include <csignal>
#include <new>

using namespace vc;
#ifndef C10_MODE
#  define C10_MODE MASK
#endif
using Cfg = mb::cfg<uint16_t, mb::abi_lp32, mb::C10_MODE, 2>;
using SB = mb::mbox<Cfg>;
using sbx_t = rlbox::rlbox_sandbox<SB>;
template<class T>
using tn = rlbox::tainted<T, SB>;
static const uint64_t kSize = SB::kSize;
static const char* kMode = mb::C10_MODE == mb::MASK ? "mask" : "registry";

// ---- allocator bound: a length that slipped through a check must not become gigabytes ------------
static const size_t kAllocCap = 1 << 20;
void* operator new(size_t n)
{
  if (n > kAllocCap) throw std::bad_alloc();
  void* p = malloc(n ? n : 1);
  if (!p) throw std::bad_alloc();
  return p;
}
void* operator new[](size_t n)
{
  if (n > kAllocCap) throw std::bad_alloc();
  void* p = malloc(n ? n : 1);
  if (!p) throw std::bad_alloc();
  return p;
}
void operator delete(void* p) noexcept { free(p); }
void operator delete[](void* p) noexcept { free(p); }
void operator delete(void* p, size_t) noexcept { free(p); }
void operator delete[](void* p, size_t) noexcept { free(p); }

// ---- fault capture ----------------------------------------------------------------------------------
static sigjmp_buf g_jb;
static volatile sig_atomic_t g_armed = 0;
static void on_segv(int, siginfo_t*, void*)
{
  if (g_armed) siglongjmp(g_jb, 1);
  _exit(139);
}
enum Out
{
  O_RET,
  O_ABORT,
  O_ALLOC,
  O_CRASH
};
static const char* on(Out o)
{
  static const char* n[] = { "RETURN", "ABORT", "ALLOC_FAIL", "CRASH" };
  return n[o];
}
template<class F>
static Out guarded(F&& f)
{
  if (sigsetjmp(g_jb, 1)) {
    g_armed = 0;
    return O_CRASH;
  }
  g_armed = 1;
  Out o = O_RET;
  try {
    f();
  } catch (const std::runtime_error&) {
    o = O_ABORT;
  } catch (const std::bad_alloc&) {
    o = O_ALLOC;
  } catch (const std::length_error&) {
    o = O_ALLOC;
  }
  g_armed = 0;
  return o;
}

// ---- world --------------------------------------------------------------------------------------
static sbx_t* g_sb;
static uintptr_t g_base, g_obase;
static uint8_t *g_mem, *g_omem;
static uint8_t* g_arena; // 64 KiB, 64 KiB aligned, PROT_NONE pages on both sides
static std::vector<uint8_t> g_ref_mem, g_ref_omem, g_ref_arena;
static long long n_eval = 0, n_nontriv = 0;
static long long n_class[4] = { 0, 0, 0, 0 };
static bool g_thorough = false;

static void fill()
{
  for (uint64_t i = 0; i < kSize; i++) {
    g_mem[i] = (uint8_t)(i * 7 + 3);
    g_omem[i] = (uint8_t)(i * 5 + 1);
    g_arena[i] = (uint8_t)(i * 11 + 9);
  }
  // make sure strings terminate somewhere sensible
  g_ref_mem.assign(g_mem, g_mem + kSize);
  g_ref_omem.assign(g_omem, g_omem + kSize);
  g_ref_arena.assign(g_arena, g_arena + kSize);
}
static void reset_changed()
{
  if (memcmp(g_mem, g_ref_mem.data(), kSize)) memcpy(g_mem, g_ref_mem.data(), kSize);
  if (memcmp(g_omem, g_ref_omem.data(), kSize)) memcpy(g_omem, g_ref_omem.data(), kSize);
  if (memcmp(g_arena, g_ref_arena.data(), kSize)) memcpy(g_arena, g_ref_arena.data(), kSize);
}
// compares the three regions with the reference images after applying `expect` (may be null = unchanged)
struct Effect
{
  uint8_t* region = nullptr; // which live region is expected to change
  uint64_t off = 0, len = 0;
  std::vector<uint8_t> bytes;
};
static bool unchanged_except(const Effect* e, std::string& why)
{
  struct R
  {
    uint8_t* live;
    const uint8_t* ref;
    const char* nm;
  } rs[] = { { g_mem, g_ref_mem.data(), "own sandbox" }, { g_omem, g_ref_omem.data(), "OTHER sandbox" }, { g_arena, g_ref_arena.data(), "application arena" } };
  for (auto& r : rs) {
    for (uint64_t lo = 0; lo < kSize;) {
      if (e && e->region == r.live && lo == e->off && e->len) {
        if (memcmp(r.live + lo, e->bytes.data(), e->len)) {
          why = std::string("target bytes in ") + r.nm + " differ from the reference effect";
          return false;
        }
        lo += e->len;
        continue;
      }
      uint64_t hi = kSize;
      if (e && e->region == r.live && e->len && lo < e->off) hi = e->off;
      if (memcmp(r.live + lo, r.ref + lo, hi - lo)) {
        for (uint64_t i = lo; i < hi; i++)
          if (r.live[i] != r.ref[i]) {
            why = std::string("byte ") + std::to_string(i) + " of " + r.nm + " changed although it is outside the requested range";
            break;
          }
        return false;
      }
      lo = hi;
    }
  }
  return true;
}

// ---- the interval model ------------------------------------------------------------------------------
enum Verdict
{
  MUST_PROCEED,
  MUST_ABORT,
  MUST_NOT_PROCEED,
  UNCONSTRAINED
};
static const char* vn[] = { "must-proceed", "must-abort", "must-not-proceed(null)", "unconstrained" };
struct Range
{
  bool sandbox_side;
  uintptr_t start;
  u128 len; // bytes, exact
};
static int which_sandbox(u128 a)
{
  if (a >= g_base && a < (u128)g_base + kSize) return 1;
  if (a >= g_obase && a < (u128)g_obase + kSize) return 2;
  return 0;
}
static Verdict classify(const std::vector<Range>& rs)
{
  bool unconstrained = false;
  for (auto& r : rs)
    if (r.start == 0) return MUST_NOT_PROCEED;
  for (auto& r : rs)
    if (r.len == 0) unconstrained = true;
  if (unconstrained) return UNCONSTRAINED;
  for (auto& r : rs) {
    u128 s = r.start, e = (u128)r.start + r.len - 1; // exact last byte
    if (r.len > kSize) return MUST_ABORT;
    if (e >= ((u128)1 << 64)) return MUST_ABORT; // wraps the address space
    if (r.sandbox_side) {
      if (which_sandbox(s) != 1 || which_sandbox(e) != 1) return MUST_ABORT;
    } else {
      int ws = which_sandbox(s), we = which_sandbox(e);
      if (ws != we) return MUST_ABORT;                 // crosses into or out of a sandbox
      if (ws != 0) unconstrained = true;               // raw pointer wholly inside a sandbox: not addressed
      // (a range can not contain a whole 64 KiB sandbox because len <= kSize and the regions are far apart)
    }
  }
  return unconstrained ? UNCONSTRAINED : MUST_PROCEED;
}

static std::string hex(u128 v)
{
  char b[40];
  snprintf(b, sizeof b, "0x%llx%016llx", (unsigned long long)(v >> 64), (unsigned long long)v);
  return b;
}

// judge one executed case
static void judge(const std::string& op, const std::string& kase, Verdict v, Out o, bool null_passthrough, const Effect* eff, bool proceeded_ok, const std::string& extra)
{
  n_eval++;
  n_class[v]++;
  if (v != MUST_PROCEED) n_nontriv++;
  if ((n_eval % 997) == 1) sample("{\"case\":\"" + jesc(kase) + "\",\"model\":\"" + vn[v] + "\",\"outcome\":\"" + on(o) + "\"}", 5);
  std::string sg = "C10 mode=" + std::string(kMode) + " op=" + op + " model=" + vn[v];
  std::string why;
  switch (v) {
    case UNCONSTRAINED:
      if (o == O_CRASH) viol(sg + " kind=crash", kase, "crashed: " + extra);
      break;
    case MUST_NOT_PROCEED:
      if (o == O_CRASH) viol(sg + " kind=crash-on-null", kase, "null start crashed instead of aborting: " + extra);
      else if (o == O_RET && !null_passthrough) viol(sg + " kind=proceeded-on-null", kase, "returned normally for a null start without the documented null pass-through: " + extra);
      else if (!unchanged_except(nullptr, why)) viol(sg + " kind=touched-memory", kase, why);
      break;
    case MUST_ABORT:
      if (o == O_CRASH) viol(sg + " kind=crash", kase, "crashed instead of aborting: " + extra);
      else if (o == O_RET) viol(sg + " kind=proceeded", kase, "range leaves / straddles / exceeds the sandbox but the operation returned normally: " + extra);
      else if (!unchanged_except(nullptr, why)) viol(sg + " kind=touched-memory", kase, why);
      break;
    case MUST_PROCEED:
      if (o != O_RET) viol(sg + " kind=refused", kase, std::string("valid request ended in ") + on(o) + ": " + extra);
      else if (!unchanged_except(eff, why)) viol(sg + " kind=wrong-bytes", kase, why);
      else if (!proceeded_ok) viol(sg + " kind=wrong-result", kase, "result differs from the reference: " + extra);
      break;
  }
  reset_changed();
}

// ---- domains --------------------------------------------------------------------------------------
struct SStart
{
  const char* cls;
  uint64_t off; // ~0 = null
};
static std::vector<SStart> sstarts()
{
  std::vector<SStart> v = { { "null", ~0ull }, { "first", 0 }, { "first", 1 }, { "first", 2 }, { "interior", 0x4000 }, { "interior", 0x8001 }, { "last", kSize - 3 }, { "last", kSize - 2 }, { "last", kSize - 1 } };
  if (g_thorough) {
    for (uint64_t o = 3; o <= 9; o++) v.push_back({ "first", o });
    for (uint64_t o : { (uint64_t)0x0fff, (uint64_t)0x1000, (uint64_t)0x3fff, (uint64_t)0x7fff, (uint64_t)0x8000, (uint64_t)0xc003, (uint64_t)0xfff0 }) v.push_back({ "interior", o });
    for (uint64_t k = 4; k <= 17; k++) v.push_back({ "last", kSize - k });
  }
  return v;
}
struct AStart
{
  const char* cls;
  uintptr_t addr;
};
static std::vector<AStart> astarts()
{
  return { { "null", 0 },
           { "arena-begin", (uintptr_t)g_arena },
           { "arena-mid", (uintptr_t)g_arena + 0x3000 },
           { "arena-end-16", (uintptr_t)g_arena + kSize - 16 },
           { "arena-end-1", (uintptr_t)g_arena + kSize - 1 },
#ifndef C10_SINGLE
           { "other-sandbox", g_obase + 0x100 },
           { "other-sandbox-end", g_obase + kSize - 8 },
#endif
           { "same-sandbox", g_base + 0x2000 },
           { "before-sandbox", g_base - 8 },
           { "before-arena-guard", (uintptr_t)g_arena - 4 } };
}
static std::vector<AStart> astarts_all()
{
  auto v = astarts();
  if (g_thorough) {
    for (uintptr_t k : { 2, 3, 4, 7, 8, 9, 15, 17 }) v.push_back({ "arena-end-k", (uintptr_t)g_arena + kSize - k });
#ifndef C10_SINGLE
    v.push_back({ "other-sandbox-last", g_obase + kSize - 1 });
#endif
    v.push_back({ "same-sandbox-last", g_base + kSize - 4 });
    v.push_back({ "after-sandbox", g_base + kSize });
    v.push_back({ "before-sandbox-1", g_base - 1 });
  }
  return v;
}
// byte extents for a range starting `rem` bytes before the end of its 64 KiB container
static std::vector<u128> extents(uint64_t rem)
{
  std::set<u128> s{ 0, 1, 2, 3, 8, 16 };
  for (int d = -2; d <= 2; d++) {
    if ((i128)rem + d >= 0) s.insert((u128)((i128)rem + d));
    s.insert((u128)((i128)kSize + d));
  }
  s.insert(rem / 2);
  for (int k : { 16, 31, 32, 63 }) {
    s.insert(((u128)1 << k) - 1);
    s.insert((u128)1 << k);
    s.insert(((u128)1 << k) + 1);
  }
  for (uint64_t k : { (uint64_t)1, (uint64_t)2, (uint64_t)3, (uint64_t)8, kSize - rem, kSize - rem + 1, kSize - rem + 2, kSize }) s.insert(((u128)1 << 64) - k);
  return std::vector<u128>(s.begin(), s.end());
}

template<class T>
static tn<T*> sp(uint64_t off)
{
  tn<T*> p = nullptr;
  if (off != ~0ull) p.assign_raw_pointer(*g_sb, reinterpret_cast<T*>(g_base + off));
  return p;
}

// size operand forms
enum NForm
{
  N_SIZE_T,
  N_U32,
  N_I32,
  N_I64,
  N_TAINTED_SIZE_T,
  N_TAINTED_INT,
  N_FORMS
};
static const char* nfn[] = { "size_t", "uint32_t", "int32_t", "int64_t", "tainted<size_t>", "tainted<int>" };
// calls f(num) with the given form if `n` (as the size_t the operation will finally see) is expressible
template<class F>
static bool with_n(int form, u128 n, F&& f)
{
  if (n >= ((u128)1 << 64)) return false;
  uint64_t v = (uint64_t)n;
  switch (form) {
    case N_SIZE_T: f((size_t)v); return true;
    case N_U32: if (v > 0xffffffffull) return false; f((uint32_t)v); return true;
    case N_I32: {
      // a negative int32 reaches the operation as a huge size_t
      if (v <= 0x7fffffffull) { f((int32_t)v); return true; }
      if (v >= 0xffffffff80000000ull) { f((int32_t)(int64_t)v); return true; }
      return false;
    }
    case N_I64: f((int64_t)v); return true;
    case N_TAINTED_SIZE_T: { tn<size_t> t = (size_t)v; f(t); return true; }
    case N_TAINTED_INT: {
      if (v <= 0x7fffffffull) { tn<int> t = (int)v; f(t); return true; }
      if (v >= 0xffffffff80000000ull) { tn<int> t = (int)(int64_t)v; f(t); return true; }
      return false;
    }
  }
  return false;
}

static uint64_t g_idx = 0;
static bool g_replay = false;
static std::string g_rp;
static bool take(const std::string& kase)
{
  if (g_replay) return kase == g_rp;
  return mine(g_idx++);
}

// ---- memset ---------------------------------------------------------------------------------------
static void op_memset()
{
  for (auto& s : sstarts())
    for (u128 n : extents(s.off == ~0ull ? kSize : kSize - s.off))
      for (int nf = 0; nf < N_FORMS; nf++) {
        std::string kase = "memset|" + std::to_string(s.off) + "|" + hex(n) + "|" + nfn[nf];
        if (!take(kase)) continue;
        Verdict v = classify({ { true, s.off == ~0ull ? 0 : g_base + s.off, n } });
        Effect eff;
        if (v == MUST_PROCEED) {
          eff.region = g_mem;
          eff.off = s.off;
          eff.len = (uint64_t)n;
          eff.bytes.assign((size_t)n, 0x5C);
        }
        Out o = O_RET;
        bool ran = with_n(nf, n, [&](auto num) {
          auto p = sp<char>(s.off);
          o = guarded([&] { rlbox::memset(*g_sb, p, 0x5C, num); });
        });
        if (ran) judge("memset", kase, v, o, false, &eff, true, "start " + std::string(s.cls) + " n=" + hex(n));
      }
}

// ---- a sandbox object destroyed and created again with another memory size -------------------------
// "extents larger than the sandbox never proceed" is about the incarnation that is alive now, whatever the object was before.
static void op_reincarnation()
{
#ifndef C10_SINGLE
  struct Inc { uint64_t first, second; };
  const uint64_t start = 16;
  for (Inc inc : { Inc{ kSize, 4096 }, Inc{ 4096, kSize }, Inc{ 8192, 4096 }, Inc{ 4096, 4096 } })
    for (int warm = 0; warm < 2; warm++)
      for (int op = 0; op < 3; op++)
        for (uint64_t n : { (uint64_t)1, (uint64_t)4000, inc.second - start, inc.second, inc.second + 1, (uint64_t)8192, inc.first, kSize - start, kSize }) {
          static const char* opn[] = { "memset", "memcpy", "memcmp" };
          std::string kase = std::string("reinc|") + std::to_string(inc.first) + "|" + std::to_string(inc.second) + "|" + std::to_string(warm) + "|" + opn[op] + "|" + std::to_string(n);
          if (!take(kase)) continue;
          bool must_abort = n > inc.second || start + n > kSize;
          bool must_proceed = start + n <= inc.second;
          if (!must_abort && !must_proceed) continue; // ends between the live size and the slot end: the mask-based predicate cannot tell
          sbx_t r;
          SB::next_mem_limit() = inc.first;
          r.create_sandbox(2);
          auto mk = [&] {
            tn<char*> p;
            p.assign_raw_pointer(r, reinterpret_cast<char*>(r.get_sandbox_impl()->base + start));
            return p;
          };
          if (warm) {
            auto p = mk();
            (void)guarded([&] { rlbox::memset(r, p, 1, 8u); rlbox::memcpy(r, p, reinterpret_cast<const char*>(g_arena), 8u); (void)rlbox::memcmp(r, p, reinterpret_cast<const char*>(g_arena), 8u); });
          }
          r.destroy_sandbox();
          SB::next_mem_limit() = inc.second;
          r.create_sandbox(2);
          auto p = mk();
          Out o = O_RET;
          if (op == 0) o = guarded([&] { rlbox::memset(r, p, 0x5C, (size_t)n); });
          else if (op == 1) o = guarded([&] { rlbox::memcpy(r, p, reinterpret_cast<const char*>(g_arena), (size_t)n); });
          else o = guarded([&] { (void)rlbox::memcmp(r, p, reinterpret_cast<const char*>(g_arena), (size_t)n); });
          n_eval++;
          n_nontriv++;
          std::string sg = "C10 mode=" + std::string(kMode) + " op=" + opn[op] + "(re-created sandbox)";
          std::string ex = "object first created with " + std::to_string(inc.first) + " bytes" + (warm ? " and used" : "") + ", destroyed, created again with " + std::to_string(inc.second) + " bytes; extent " + std::to_string(n) + " at offset 16";
          if (must_abort && o == O_RET) viol(sg + " kind=extent-larger-than-the-live-sandbox-proceeded", kase, ex);
          else if (must_abort && o == O_CRASH) viol(sg + " kind=crash", kase, ex);
          else if (must_proceed && o != O_RET) viol(sg + " kind=refused", kase, "valid request ended in " + std::string(on(o)) + ": " + ex);
          (void)guarded([&] { r.destroy_sandbox(); });
          SB::next_mem_limit() = 0;
          fill();
          reset_changed();
        }
#endif
}

// ---- memcpy / memcmp ------------------------------------------------------------------------------
static void op_memcpy_memcmp()
{
  // tainted -> tainted
  for (auto& d : sstarts())
    for (auto& s : sstarts()) {
      uint64_t remd = d.off == ~0ull ? kSize : kSize - d.off, rems = s.off == ~0ull ? kSize : kSize - s.off;
      std::set<u128> ns;
      for (u128 n : extents(remd)) ns.insert(n);
      for (u128 n : extents(rems)) ns.insert(n);
      for (u128 n : ns) {
        if (n >= ((u128)1 << 64)) continue;
        // overlapping source/destination is undefined for memcpy itself: skip
        if (d.off != ~0ull && s.off != ~0ull && n && !(d.off + (uint64_t)std::min<u128>(n, kSize) <= s.off || s.off + (uint64_t)std::min<u128>(n, kSize) <= d.off)) {
          if (classify({ { true, g_base + d.off, n }, { true, g_base + s.off, n } }) == MUST_PROCEED) continue;
        }
        std::vector<Range> rs = { { true, d.off == ~0ull ? 0 : g_base + d.off, n }, { true, s.off == ~0ull ? 0 : g_base + s.off, n } };
        Verdict v = classify(rs);
        {
          std::string kase = "memcpy-tt|" + std::to_string(d.off) + "|" + std::to_string(s.off) + "|" + hex(n);
          if (take(kase)) {
            Effect eff;
            if (v == MUST_PROCEED) {
              eff.region = g_mem;
              eff.off = d.off;
              eff.len = (uint64_t)n;
              eff.bytes.assign(g_ref_mem.begin() + s.off, g_ref_mem.begin() + s.off + (size_t)n);
            }
            auto pd = sp<char>(d.off);
            auto ps = sp<char>(s.off);
            Out o = guarded([&] { rlbox::memcpy(*g_sb, pd, ps, (size_t)n); });
            judge("memcpy(tainted,tainted)", kase, v, o, false, &eff, true, "dest " + std::string(d.cls) + " src " + s.cls + " n=" + hex(n));
          }
        }
        {
          std::string kase = "memcmp-tt|" + std::to_string(d.off) + "|" + std::to_string(s.off) + "|" + hex(n);
          if (take(kase)) {
            auto pd = sp<char>(d.off);
            auto ps = sp<char>(s.off);
            int got = 0;
            Out o = guarded([&] { got = rlbox::memcmp(*g_sb, pd, ps, (size_t)n).UNSAFE_unverified(); });
            bool ok = true;
            if (v == MUST_PROCEED && o == O_RET) {
              int want = memcmp(g_ref_mem.data() + d.off, g_ref_mem.data() + s.off, (size_t)n);
              ok = (want < 0) == (got < 0) && (want > 0) == (got > 0);
            }
            judge("memcmp(tainted,tainted)", kase, v, o, false, nullptr, ok, "n=" + hex(n));
          }
        }
      }
    }
  // raw application pointer -> tainted
  for (auto& d : sstarts())
    for (auto& a : astarts_all()) {
      uint64_t remd = d.off == ~0ull ? kSize : kSize - d.off;
      std::set<u128> ns;
      for (u128 n : extents(remd)) ns.insert(n);
      uint64_t aoff = a.addr & (kSize - 1);
      for (u128 n : extents(kSize - aoff)) ns.insert(n);
      for (u128 n : ns) {
        if (n >= ((u128)1 << 64)) continue;
        std::vector<Range> rs = { { true, d.off == ~0ull ? 0 : g_base + d.off, n }, { false, a.addr, n } };
        Verdict v = classify(rs);
        // in mask mode the backend compares 64 KiB chunks: an application range crossing a chunk boundary is
        // rejected by the backend itself, so it is outside what this check may constrain
        if (v == MUST_PROCEED && mb::C10_MODE == mb::MASK && n && ((a.addr ^ (a.addr + (uint64_t)n - 1)) & ~(uintptr_t)(kSize - 1))) v = UNCONSTRAINED;
        // the source must be readable for a request that the model lets proceed
        bool readable = a.addr >= (uintptr_t)g_arena && (u128)a.addr + n <= (u128)(uintptr_t)g_arena + kSize;
        if (v == MUST_PROCEED && !readable) continue;
        // same-sandbox raw source overlapping the destination: undefined for memcpy
        std::string kase = "memcpy-tr|" + std::to_string(d.off) + "|" + a.cls + "|" + hex(n);
        if (take(kase)) {
          Effect eff;
          if (v == MUST_PROCEED) {
            eff.region = g_mem;
            eff.off = d.off;
            eff.len = (uint64_t)n;
            eff.bytes.assign(g_ref_arena.begin() + (a.addr - (uintptr_t)g_arena), g_ref_arena.begin() + (a.addr - (uintptr_t)g_arena) + (size_t)n);
          }
          auto pd = sp<char>(d.off);
          const char* src = reinterpret_cast<const char*>(a.addr);
          Out o;
          if (v == UNCONSTRAINED && n > kSize) continue; // nothing to learn and the copy may be huge
          o = guarded([&] { rlbox::memcpy(*g_sb, pd, src, (size_t)n); });
          judge("memcpy(tainted,raw)", kase, v, o, false, &eff, true, "dest " + std::string(d.cls) + " src " + a.cls + " n=" + hex(n));
        }
        std::string kase2 = "memcmp-tr|" + std::to_string(d.off) + "|" + a.cls + "|" + hex(n);
        if (take(kase2)) {
          if (v == UNCONSTRAINED && n > kSize) continue;
          auto pd = sp<char>(d.off);
          const char* src = reinterpret_cast<const char*>(a.addr);
          int got = 0;
          Out o = guarded([&] { got = rlbox::memcmp(*g_sb, pd, src, (size_t)n).UNSAFE_unverified(); });
          bool ok = true;
          if (v == MUST_PROCEED && o == O_RET) {
            int want = memcmp(g_ref_mem.data() + d.off, g_ref_arena.data() + (a.addr - (uintptr_t)g_arena), (size_t)n);
            ok = (want < 0) == (got < 0) && (want > 0) == (got > 0);
          }
          judge("memcmp(tainted,raw)", kase2, v, o, false, nullptr, ok, "n=" + hex(n));
        }
      }
    }
}

// ---- element-counted variants on tainted pointers -----------------------------------------------------
template<class T>
struct elname;
#define EN(T, G)                                                                                                   \
  template<>                                                                                                       \
  struct elname<T>                                                                                                 \
  {                                                                                                                \
    static constexpr const char* n = #T;                                                                           \
    static constexpr uint64_t guest = G;                                                                           \
  };
EN(char, 1) EN(short, 2) EN(int, 4) EN(long, 4) EN(long long, 8) EN(double, 8)
#undef EN

static std::vector<u128> counts(uint64_t rem, uint64_t es)
{
  std::set<u128> s{ 0, 1, 2, 3 };
  for (int d = -2; d <= 2; d++) {
    if ((i128)(rem / es) + d >= 0) s.insert((u128)((i128)(rem / es) + d));
    s.insert((u128)((i128)(kSize / es) + d));
  }
  for (int k : { 16, 31, 32, 61, 62, 63 }) {
    s.insert(((u128)1 << k) - 1);
    s.insert((u128)1 << k);
    s.insert(((u128)1 << k) + 1);
  }
  // counts whose byte size wraps 2^64 back to something small
  for (uint64_t small : { (uint64_t)0, (uint64_t)1, (uint64_t)2, rem / es }) s.insert((((u128)1 << 64) / es) + small);
  for (uint64_t k : { (uint64_t)1, (uint64_t)2, (uint64_t)8 }) s.insert(((u128)1 << 64) - k);
  std::vector<u128> out;
  for (u128 c : s)
    if (c < ((u128)1 << 64)) out.push_back(c);
  return out;
}

template<class T>
static void op_range_variants()
{
  const uint64_t gs = elname<T>::guest;
  for (auto& s : sstarts()) {
    uint64_t rem = s.off == ~0ull ? kSize : kSize - s.off;
    for (u128 c : counts(rem, gs)) {
      uintptr_t start = s.off == ~0ull ? 0 : g_base + s.off;
      // receiver forms: the tainted pointer itself, and a pointer CELL in sandbox memory (tainted_volatile<T*>) holding the same pointer
      for (int form = 0; form < 2; form++) {
      if (form == 1 && s.off == 0) continue; // representation 0 is null
      const uint64_t CELL = 0x6000;
      const char* fsuf = form ? "-cell" : "";
      const char* osuf = form ? "(cell)" : "";
      uint16_t saved_cell = 0;
      if (form == 1) {
        uint16_t rep = s.off == ~0ull ? 0 : (uint16_t)s.off;
        memcpy(&saved_cell, g_ref_mem.data() + CELL, 2);
        memcpy(g_mem + CELL, &rep, 2);
        memcpy(g_ref_mem.data() + CELL, &rep, 2); // the cell is part of the reference image while it exists
      }
      auto with_recv = [&](auto&& f) {
        if (form == 0) {
          auto p = sp<T>(s.off);
          f(p);
        } else {
          auto pp = sp<T*>(CELL);
          f(*pp);
        }
      };
      // copy_and_verify_range: count elements of guest size
      {
        std::string kase = std::string("cavr") + fsuf + "|" + elname<T>::n + "|" + std::to_string(s.off) + "|" + hex(c);
        if (take(kase)) {
          Verdict v = c == 0 ? MUST_ABORT /* documented: count 0 aborts */ : classify({ { true, start, c * gs } });
          bool got_null = false, content_ok = true;
          Out o = guarded([&] {
           with_recv([&](auto& p) {
            p.copy_and_verify_range(
              [&](std::unique_ptr<T[]> v2) {
                if (!v2) {
                  got_null = true;
                  return 0;
                }
                // elements decode from consecutive guest-size cells
                for (uint64_t i = 0; i < (uint64_t)c && i < 4; i++) {
                  T want{};
                  if constexpr (std::is_same_v<T, long>) {
                    int32_t g;
                    memcpy(&g, g_ref_mem.data() + s.off + i * 4, 4);
                    want = g;
                  } else
                    memcpy(&want, g_ref_mem.data() + s.off + i * gs, gs);
                  if (memcmp(&want, &v2[i], sizeof(T))) content_ok = false;
                }
                return 0;
              },
              (size_t)c);
           });
          });
          if (c == 0 && s.off == ~0ull) v = UNCONSTRAINED; // both "count 0" and "null" apply; any refusal is fine
          judge(std::string("copy_and_verify_range<") + elname<T>::n + ">" + osuf, kase, v, o, got_null, nullptr, content_ok && !got_null, "count=" + hex(c));
        }
      }
      // copy_and_verify_buffer_address: element count of the pointee type (guest size)
      {
        std::string kase = std::string("cavba") + fsuf + "|" + elname<T>::n + "|" + std::to_string(s.off) + "|" + hex(c);
        if (take(kase)) {
          Verdict v = c == 0 ? MUST_ABORT : classify({ { true, start, c * gs } });
          if (c == 0 && s.off == ~0ull) v = UNCONSTRAINED;
          uintptr_t got = 1;
          Out o = guarded([&] { with_recv([&](auto& p) { got = p.copy_and_verify_buffer_address([](uintptr_t a) { return a; }, (size_t)c); }); });
          judge(std::string("copy_and_verify_buffer_address<") + elname<T>::n + ">" + osuf, kase, v, o, got == 0, nullptr, got == start, "count=" + hex(c));
        }
      }
      // unverified_safe_pointer_because: `count` whole elements of the RETURNED pointer's type (application T)
      {
        std::string kase = std::string("uspb") + fsuf + "|" + elname<T>::n + "|" + std::to_string(s.off) + "|" + hex(c);
        if (take(kase)) {
          Verdict v = classify({ { true, start, c * (u128)sizeof(T) } });
          uintptr_t got = 1;
          Out o = guarded([&] { with_recv([&](auto& p) { got = reinterpret_cast<uintptr_t>(p.unverified_safe_pointer_because((size_t)c, "harness")); }); });
          judge(std::string("unverified_safe_pointer_because<") + elname<T>::n + ">" + osuf, kase, v, o, got == 0, nullptr, got == start, "count=" + hex(c) + " sizeof(T)=" + std::to_string(sizeof(T)));
        }
      }
      if (form == 1) {
        memcpy(g_mem + CELL, &saved_cell, 2);
        memcpy(g_ref_mem.data() + CELL, &saved_cell, 2);
      }
      } // receiver form
    }
  }
}

// ---- strings -----------------------------------------------------------------------------------------
static void op_string()
{
  // string of length L placed so that it ends k bytes before the end of the region; k = 0 means the
  // terminator is the last byte; "unterminated" runs into the end of the region without a NUL
  for (uint64_t len : { (uint64_t)0, (uint64_t)1, (uint64_t)3, (uint64_t)17 })
    for (int where = 0; where < 4; where++)
      for (int verifier = 0; verifier < 2; verifier++) {
        std::string kase = "string|" + std::to_string(len) + "|" + std::to_string(where) + "|" + std::to_string(verifier);
        if (!take(kase)) continue;
        uint64_t off;
        bool terminated = true;
        if (where == 0) off = 0x4000;
        else if (where == 1) off = kSize - len - 1; // terminator on the last byte
        else if (where == 2) off = 1;
        else {
          off = kSize - len - 1;
          terminated = false; // no NUL before the end of the region
        }
        for (uint64_t i = 0; i < len; i++) g_mem[off + i] = 'a' + (i % 26);
        g_mem[off + len] = terminated ? 0 : 'Z';
        if (!terminated && len == 0) g_mem[off] = 'Z';
        std::vector<uint8_t> snapshot(g_mem, g_mem + kSize);
        auto p = sp<char>(off);
        std::string got;
        bool got_null = false;
        Out o = guarded([&] {
          if (verifier == 0)
            p.copy_and_verify_string([&](std::unique_ptr<char[]> s) {
              if (!s) got_null = true;
              else got = s.get();
              return 0;
            });
          else
            p.copy_and_verify_string([&](std::string s) {
              got = s;
              return 0;
            });
        });
        n_eval++;
        std::string sg = "C10 mode=" + std::string(kMode) + " op=copy_and_verify_string";
        if (terminated) {
          n_class[MUST_PROCEED]++;
          std::string want((const char*)snapshot.data() + off, len);
          if (o != O_RET) viol(sg + " model=must-proceed kind=refused", kase, std::string("terminated string inside the sandbox ended in ") + on(o));
          else if (got != want || got_null) viol(sg + " model=must-proceed kind=wrong-result", kase, "string content differs");
        } else {
          n_class[MUST_ABORT]++;
          n_nontriv++;
          // the string runs past the end of the sandbox: must abort, and must not fault on the guard page
          if (o == O_CRASH) viol(sg + " model=must-abort kind=crash-unterminated", kase, "unterminated string at the end of sandbox memory: strlen ran past the last byte of the region and faulted before any range check");
          else if (o == O_RET) viol(sg + " model=must-abort kind=proceeded", kase, "returned a string although no terminator exists inside the sandbox");
        }
        if (memcmp(g_mem, snapshot.data(), kSize)) viol(sg + " kind=touched-memory", kase, "sandbox memory modified by a read-only operation");
        reset_changed();
      }
  // null
  for (int verifier = 0; verifier < 2; verifier++) {
    std::string kase = "string|null|" + std::to_string(verifier);
    if (!take(kase)) continue;
    auto p = sp<char>(~0ull);
    bool passthrough = false;
    Out o = guarded([&] {
      if (verifier == 0) p.copy_and_verify_string([&](std::unique_ptr<char[]> s) { passthrough = !s; return 0; });
      else p.copy_and_verify_string([&](std::string s) { passthrough = s.empty(); return 0; });
    });
    judge("copy_and_verify_string", kase, MUST_NOT_PROCEED, o, passthrough, nullptr, true, "null string");
  }
}

// ---- copy_memory_or_grant_access / copy_memory_or_deny_access (no grant/deny support in mbox: copy branch) ----
template<class T>
static void op_grant_deny()
{
  const uint64_t es = sizeof(T);
  // grant: application-side source
  for (auto& a : astarts_all()) {
    uint64_t aoff = a.addr & (kSize - 1);
    for (u128 c : counts(kSize - aoff, es)) {
      std::string kase = std::string("grant|") + elname<T>::n + "|" + a.cls + "|" + hex(c);
      if (!take(kase)) continue;
      u128 bytes = c * es;
      g_sb->get_sandbox_impl()->brk = 16;
      std::vector<Range> rs = { { false, a.addr, bytes } };
      Verdict v = classify(rs);
      if (v == MUST_PROCEED && mb::C10_MODE == mb::MASK && bytes && ((a.addr ^ (a.addr + (uint64_t)bytes - 1)) & ~(uintptr_t)(kSize - 1))) v = UNCONSTRAINED;
      bool readable = a.addr >= (uintptr_t)g_arena && (u128)a.addr + bytes <= (u128)(uintptr_t)g_arena + kSize;
      if (v == MUST_PROCEED && !readable) continue;
      if (v == UNCONSTRAINED && bytes > kSize) continue;
      // the sandbox heap (bump allocator) can serve at most this much
      bool heap_fits = bytes + 16 + 8 <= SB::kCommitLo;
      bool copied = false;
      tn<T*> res = nullptr;
      Out o = guarded([&] { res = rlbox::copy_memory_or_grant_access(*g_sb, reinterpret_cast<T*>(a.addr), (size_t)c, false, copied); });
      bool null_res = res.UNSAFE_unverified() == nullptr;
      Effect eff;
      bool ok = true;
      if (v == MUST_PROCEED && !heap_fits) {
        // allocation failure is the acceptable way out
        if (o == O_RET && null_res) {
          n_eval++;
          n_class[MUST_ABORT]++;
          reset_changed();
          continue;
        }
      }
      if (v == MUST_PROCEED && o == O_RET) {
        if (null_res) ok = false;
        else {
          uint64_t doff = reinterpret_cast<uintptr_t>(res.UNSAFE_unverified()) - g_base;
          eff.region = g_mem;
          eff.off = doff;
          eff.len = (uint64_t)bytes;
          eff.bytes.assign(g_ref_arena.begin() + (a.addr - (uintptr_t)g_arena), g_ref_arena.begin() + (a.addr - (uintptr_t)g_arena) + (size_t)bytes);
          ok = copied;
        }
      }
      // a null result without touching memory counts as a refusal (allocation failure) where the model wants an abort
      if (v == MUST_ABORT && o == O_RET && null_res) o = O_ALLOC;
      if (v == MUST_NOT_PROCEED && o == O_RET && null_res) {}
      judge(std::string("copy_memory_or_grant_access<") + elname<T>::n + ">", kase, v, o, null_res, &eff, ok, "count=" + hex(c));
    }
  }
  // grant with an allocator that answers near the end of the region (the guest's allocator is untrusted): the destination
  // block of the copy must lie wholly inside, up to the last byte of the last element
  for (uint64_t c : { (uint64_t)1, (uint64_t)2, (uint64_t)3 })
    for (uint64_t k = 1; k <= c * es + es; k++) {
      uint64_t ans = kSize - k;
      uint64_t bytes = c * es;
      std::string kase = std::string("grant-alloc|") + elname<T>::n + "|" + std::to_string(c) + "|" + std::to_string(k);
      if (!take(kase)) continue;
      bool fits = ans + bytes <= kSize;
      g_sb->get_sandbox_impl()->menv.override_next = true;
      g_sb->get_sandbox_impl()->menv.answer = ans;
      bool copied = false;
      tn<T*> res = nullptr;
      Out o = guarded([&] { res = rlbox::copy_memory_or_grant_access(*g_sb, reinterpret_cast<T*>(g_arena + 64), (size_t)c, false, copied); });
      g_sb->get_sandbox_impl()->menv.override_next = false;
      bool null_res = res.UNSAFE_unverified() == nullptr;
      Effect eff;
      Verdict v = fits ? MUST_PROCEED : MUST_ABORT;
      if (fits) {
        eff.region = g_mem;
        eff.off = ans;
        eff.len = bytes;
        eff.bytes.assign(g_ref_arena.begin() + 64, g_ref_arena.begin() + 64 + (size_t)bytes);
      }
      if (v == MUST_ABORT && o == O_RET && null_res) o = O_ALLOC;
      judge(std::string("copy_memory_or_grant_access<") + elname<T>::n + ">(allocator answers near the end)", kase, v, o, null_res, &eff, !fits || (copied && !null_res), "count=" + std::to_string(c) + " allocator answer=end-" + std::to_string(k));
    }
  // deny: sandbox-side source
  for (auto& s : sstarts()) {
    uint64_t rem = s.off == ~0ull ? kSize : kSize - s.off;
    for (u128 c : counts(rem, es)) {
      std::string kase = std::string("deny|") + elname<T>::n + "|" + std::to_string(s.off) + "|" + hex(c);
      if (!take(kase)) continue;
      u128 bytes = c * es;
      Verdict v = classify({ { true, s.off == ~0ull ? 0 : g_base + s.off, bytes } });
      if (c == 0 && s.off != ~0ull) v = UNCONSTRAINED;
      auto p = sp<T>(s.off);
      bool copied = false;
      T* res = nullptr;
      Out o = guarded([&] { res = rlbox::copy_memory_or_deny_access(*g_sb, p, (size_t)c, false, copied); });
      bool ok = true;
      if (v == MUST_PROCEED && o == O_RET) ok = res && copied && memcmp(res, g_ref_mem.data() + s.off, (size_t)bytes) == 0;
      if ((v == MUST_ABORT) && o == O_RET && res == nullptr) o = O_ALLOC; // malloc(source_size) failed: allocation failure
      if (res && o == O_RET) free(res);
      judge(std::string("copy_memory_or_deny_access<") + elname<T>::n + ">", kase, v, o, res == nullptr, nullptr, ok, "count=" + hex(c));
    }
  }
}

int main(int argc, char** argv)
{
  parse(argc, argv);
  g_thorough = has_flag("--thorough");
  struct sigaction sa;
  memset(&sa, 0, sizeof sa);
  sa.sa_sigaction = on_segv;
  sa.sa_flags = SA_SIGINFO | SA_NODEFER;
  sigaction(SIGSEGV, &sa, nullptr);
  sigaction(SIGBUS, &sa, nullptr);
#ifdef C10_SINGLE
  // exactly ONE live sandbox of the type under test: the neighbouring region belongs to a sandbox of another TYPE (its own
  // process-wide list), so shortcuts for "the only sandbox" in the example-based finder are reachable
  using CfgO = mb::cfg<uint16_t, mb::abi_lp32, mb::C10_MODE, 3>;
  rlbox::rlbox_sandbox<mb::mbox<CfgO>> other;
  sbx_t sb;
#else
  sbx_t sb, other;
#endif
  sb.create_sandbox(0);
  other.create_sandbox(1);
  g_sb = &sb;
  g_base = sb.get_sandbox_impl()->base;
  g_obase = other.get_sandbox_impl()->base;
  g_mem = sb.get_sandbox_impl()->mem();
  g_omem = other.get_sandbox_impl()->mem();
  {
    // application arena: 64 KiB aligned to 64 KiB with PROT_NONE neighbours, at a fixed address
    uintptr_t want = 0x200000000000ull;
    void* m = mmap(reinterpret_cast<void*>(want - 4096), kSize + 8192, PROT_NONE, MAP_PRIVATE | MAP_ANONYMOUS | MAP_FIXED_NOREPLACE, -1, 0);
    if (m == MAP_FAILED) { perror("arena"); return 2; }
    g_arena = reinterpret_cast<uint8_t*>(want);
    mprotect(g_arena, kSize, PROT_READ | PROT_WRITE);
  }
  fill();
  if (g_args.replay) {
    g_replay = true;
    g_rp = g_args.replay;
  }
  std::string fam = g_replay ? split(g_rp, '|')[0] : "";
  auto want = [&](std::initializer_list<const char*> fs) {
    if (!g_replay) return true;
    for (auto f : fs)
      if (fam == f) return true;
    return false;
  };
  if (want({ "memset" })) op_memset();
  if (want({ "reinc" })) op_reincarnation();
  if (want({ "memcpy-tt", "memcmp-tt", "memcpy-tr", "memcmp-tr" })) op_memcpy_memcmp();
  if (want({ "cavr", "cavba", "uspb", "cavr-cell", "cavba-cell", "uspb-cell" })) {
    op_range_variants<char>();
    op_range_variants<short>();
    op_range_variants<int>();
    op_range_variants<long>();
    op_range_variants<long long>();
    op_range_variants<double>();
  }
  if (want({ "string" })) op_string();
  if (want({ "grant", "deny", "grant-alloc" })) {
    op_grant_deny<char>();
    op_grant_deny<short>();
    op_grant_deny<double>();
  }
  stat("evaluations", n_eval);
  stat("nontrivial", n_nontriv);
  stat("model_must_proceed", n_class[MUST_PROCEED]);
  stat("model_must_abort", n_class[MUST_ABORT]);
  stat("model_null", n_class[MUST_NOT_PROCEED]);
  stat("model_unconstrained", n_class[UNCONSTRAINED]);
  sample("{\"op\":\"memcpy(tainted,raw)\",\"dest_offset\":65533,\"src\":\"arena-end-16\",\"n\":4,\"model\":\"must-abort\"}", 1);
  finish();
  return 0;
}
