// C14 — sandbox lifecycle is a strict state machine; the live-sandbox registry is exact.
// Engine H: BFS over lifecycle histories on three sandbox objects of one mbox type (bool-returning
// create, by-name symbol lookup, registry-style membership so RLBox's live list is on the hot path),
// replayed on fresh objects, in lock-step with a reference state machine. Transitions: create(ok, lib1),
// create(ok, lib2), create(fail), destroy, register callback, end callback owner, invoke by name.
// Observations in every state and for every object: malloc / free / get_app_pointer, example-based
// store+load of a data pointer and a function pointer, the finder, registration probes.
#define BK_MBOX
#define BK_BYNAME
#define BK_BOOLCREATE true
#define BK_MODE REGISTRY
#include "backends.hpp"
#include "vcommon.hpp"
#include <deque>
#include <optional>
#include <unordered_set>

using namespace vc;
using CB = rlbox::sandbox_callback<int (*)(int), SB>;

// two "libraries" exporting the same names
static g_int guest_lib_id_L1() { return 1; }
static g_int guest_lib_id_L2() { return 2; }
static g_int guest_gfn_L1(g_long) { return 11; }
static g_int guest_gfn_L2(g_long) { return 22; }
int gfn(long);
static void* symtab(int lib, const char* name)
{
  if (!strcmp(name, "lib_id")) return lib == 2 ? (void*)&guest_lib_id_L2 : (void*)&guest_lib_id_L1;
  if (!strcmp(name, "gfn")) return lib == 2 ? (void*)&guest_gfn_L2 : (void*)&guest_gfn_L1;
  if (!strcmp(name, "call_cb_n")) return (void*)&guest_call_cb_n;
  return nullptr;
}

static int g_cb_ran = 0;
static tn<int> cbf(sbx_t&, tn<int> v)
{
  g_cb_ran++;
  return v.UNSAFE_unverified() + 5;
}

enum St
{
  S_NOT_CREATED,
  S_CREATED,
  S_FAILED
};
struct Op
{
  char k; // a: create ok lib1, b: create ok lib2, f: create fail, d: destroy, r: register, u: end owner, i: invoke lib_id by name, g: take the address of gfn
  int i;
};
static std::string ops(const Op& o) { return std::string(1, o.k) + std::to_string(o.i); }

struct Model
{
  int st[3] = { 0, 0, 0 };
  int lib[3] = { 0, 0, 0 };
  int inc[3] = { 0, 0, 0 };
  int own[3] = { 0, 0, 0 };    // 0 none, 1 live owner
  int owninc[3] = { 0, 0, 0 };
  std::vector<int> order;      // live list
  // history summary of symbol lookups per object, across incarnations: which names were ever resolved and which one last. It is
  // part of the dedupe key because a cache the key does not know about (a new member) would otherwise be merged away
  int ever[3] = { 0, 0, 0 };
  int last[3] = { 0, 0, 0 };
  bool registered(int i) const { return st[i] == S_CREATED && own[i] && owninc[i] == inc[i]; }
};
struct World
{
  sbx_t s[3];
  std::optional<CB> own[3];
  Model m;
  std::string hist;
};
static long long n_states = 0, n_trans = 0, n_eval = 0, n_nontriv = 0;

static std::string sg(const char* what, const char* kind) { return std::string("C14 op=") + what + " kind=" + kind; }

static void observe(World& w, const std::string& kase)
{
  auto& m = w.m;
  SB::dead_queries() = 0;
  // registry exactness (private, read-only): the list holds exactly the created objects in creation order
  {
    std::vector<void*> want;
    for (int i : m.order) want.push_back(&w.s[i]);
    n_eval++;
    bool any_failed = m.st[0] == S_FAILED || m.st[1] == S_FAILED || m.st[2] == S_FAILED;
    (void)any_failed;
    if (sbx_t::sandbox_list != want) {
      std::string a;
      for (void* p : sbx_t::sandbox_list)
        for (int i = 0; i < 3; i++)
          if (p == &w.s[i]) a += std::to_string(i);
      std::string b;
      for (int i : m.order) b += std::to_string(i);
      viol(sg("registry", "live-list-mismatch"), kase, "live-sandbox list holds objects [" + a + "] (" + std::to_string(sbx_t::sandbox_list.size()) + " entries) but the created objects are [" + b + "]");
    }
  }
  for (int i = 0; i < 3; i++) {
    auto& sb = w.s[i];
    uintptr_t region = SB::base_of_index(i);
    // an object whose last create failed never had a successful create: it is outside the window like a not-created one
    std::vector<uintptr_t> probes = { region, region + 1, region + 0x8000, region + SB::kSize - 1 };
    for (uintptr_t a : probes) {
      SB* f = nullptr;
      long dead_before = 0;
      auto o = attempt([&] { f = sbx_t::find_sandbox_from_example(reinterpret_cast<const void*>(a)); });
      n_eval++;
      (void)dead_before;
      if (o != RET) viol(sg("find", "abort"), kase, "finder aborted");
      else if (m.st[i] == S_CREATED && f != sb.get_sandbox_impl()) viol(sg("find", "live-sandbox-not-found"), kase, "object " + std::to_string(i) + " is created but an address inside its memory resolves to " + (f ? "another object" : "no sandbox"));
      else if (m.st[i] != S_CREATED && f != nullptr) viol(sg("find", "dead-sandbox-found"), kase, "object " + std::to_string(i) + " is not created but an address of its former memory still resolves to a sandbox");
    }
    if (m.st[i] == S_CREATED) {
      // allocation served inside the region
      auto o = attempt([&] {
        auto p = sb.malloc_in_sandbox<int>(2);
        auto a = reinterpret_cast<uintptr_t>(p.UNSAFE_unverified());
        if (!(a >= sb.get_sandbox_impl()->base && a < sb.get_sandbox_impl()->base + SB::kSize)) viol(sg("malloc", "outside-or-null"), kase, "created object " + std::to_string(i) + ": malloc_in_sandbox returned " + (a ? "an address outside its region" : "null"));
        else {
          // example-based translation relative to this object
          auto pp = sb.malloc_in_sandbox<int*>();
          *pp = p;
          tn<int*> back = *pp;
          g_ptr cell;
          memcpy(&cell, pp.UNSAFE_unverified(), sizeof cell);
          if (back.UNSAFE_unverified() != p.UNSAFE_unverified() || (uintptr_t)cell != a - sb.get_sandbox_impl()->base) viol(sg("translate", "wrong-sandbox"), kase, "object " + std::to_string(i) + ": pointer stored/loaded through its memory is not translated relative to it");
          // (symbol lookups are NOT part of the per-step observation: a lookup changes the library's caches, so it is an
          // operation of the alphabet - 'g' below - and histories without it are explored too)
          sb.free_in_sandbox(pp);
        }
        sb.free_in_sandbox(p);
        int obj;
        auto ap = sb.get_app_pointer(&obj);
        if (sb.lookup_app_ptr(ap.to_tainted()) != &obj) viol(sg("app_pointer", "lookup"), kase, "app pointer does not resolve");
      });
      n_eval++;
      if (o != RET) viol(sg("serve", "abort-while-created"), kase, "object " + std::to_string(i) + " is created but allocation / translation / app pointer aborted");
      // every serve rewinds the bump allocator so that states do not depend on how often they were observed
      sb.get_sandbox_impl()->brk = 16;
    } else {
      // outside the window: allocation returns null, free is ignored, nothing aborts
      size_t freed_before = sb.get_sandbox_impl()->freed.size();
      uintptr_t a = 1;
      auto o = attempt([&] {
        auto p = sb.malloc_in_sandbox<int>(2);
        a = reinterpret_cast<uintptr_t>(p.UNSAFE_unverified());
        tn<int*> np = nullptr;
        sb.free_in_sandbox(np);
      });
      n_eval++;
      n_nontriv++;
      if (o != RET) viol(sg("malloc/free", "abort-while-not-created"), kase, "object " + std::to_string(i) + " is not created: malloc/free must be ignored, not abort");
      else if (a != 0) viol(sg("malloc", "served-while-not-created"), kase, "object " + std::to_string(i) + " is not created but malloc_in_sandbox returned a pointer");
      else if (sb.get_sandbox_impl()->freed.size() != freed_before) viol(sg("free", "reached-backend-while-not-created"), kase, "free reached the backend of a sandbox that is not created");
    }
  }
}

static void observe_dead(const std::string& kase)
{
  if (SB::dead_queries() != 0) viol(sg("registry", "consulted-sandbox-that-is-not-created"), kase, "the library asked a sandbox object that is not created whether an address lies in its memory (" + std::to_string(SB::dead_queries()) + " queries)");
  SB::dead_queries() = 0;
}
static bool apply(World& w, const Op& op)
{
  auto& m = w.m;
  int i = op.i;
  auto& sb = w.s[i];
  std::string kase = w.hist + " " + ops(op);
  n_trans++;
  switch (op.k) {
    case 'a':
    case 'b':
    case 'f': {
      int lib = op.k == 'b' ? 2 : 1;
      bool ok = op.k != 'f';
      bool ret = false;
      auto o = attempt([&] { ret = sb.create_sandbox(i, lib, ok); });
      if (m.st[i] == S_FAILED) return false; // unconstrained: do not explore further
      if (m.st[i] == S_CREATED) {
        n_nontriv++;
        if (o != ABORT) {
          viol(sg("create", "created-twice"), kase, "create_sandbox on a created sandbox did not abort");
          return false;
        }
        break; // refused: the object must be exactly as before; the history goes on
      }
      if (o != RET) {
        viol(sg("create", "abort"), kase, "create_sandbox on a sandbox that is not created aborted");
        return false;
      }
      if (ret != ok) {
        viol(sg("create", "wrong-result"), kase, std::string("backend create ") + (ok ? "succeeded" : "failed") + " but create_sandbox returned " + (ret ? "true" : "false"));
        return false;
      }
      if (ok) {
        m.st[i] = S_CREATED;
        m.lib[i] = lib;
        m.inc[i]++;
        m.order.push_back(i);
      } else {
        m.st[i] = S_FAILED;
      }
      break;
    }
    case 'd': {
      auto o = attempt([&] { sb.destroy_sandbox(); });
      if (m.st[i] == S_FAILED) return false;
      if (m.st[i] != S_CREATED) {
        n_nontriv++;
        if (o != ABORT) {
          viol(sg("destroy", "not-created"), kase, "destroy_sandbox on a sandbox that is not created did not abort");
          return false;
        }
        break; // refused: nothing changed; the history goes on
      }
      if (o != RET) {
        viol(sg("destroy", "abort"), kase, "destroy_sandbox on a created sandbox aborted");
        return false;
      }
      m.st[i] = S_NOT_CREATED;
      m.order.erase(std::find(m.order.begin(), m.order.end(), i));
      break;
    }
    case 'r': {
      if (w.own[i] && m.registered(i)) {
        // the function is registered in this incarnation: a second registration must be refused, and the refusal must leave
        // the first one as it was (the probes after this step try once more)
        std::optional<CB> second;
        auto o = attempt([&] { second.emplace(sb.register_callback(cbf)); });
        n_nontriv++;
        if (o != ABORT) {
          viol(sg("register", "duplicate-accepted"), kase, "the function is registered in this incarnation but a second registration did not abort");
          return false;
        }
        g_cb_ran = 0;
        int r = -1;
        auto o2 = attempt([&] { r = sb.invoke_sandbox_function(call_cb_n, *w.own[i], 1, 1).UNSAFE_unverified(); });
        if (o2 != RET || r != 6 || g_cb_ran != 1) viol(sg("register", "refused-duplicate-damaged-registration"), kase, "after a refused second registration the first one is no longer callable");
        break;
      }
      if (w.own[i]) return true; // one owner slot per object
      auto o = attempt([&] { w.own[i].emplace(sb.register_callback(cbf)); });
      if (m.st[i] != S_CREATED) {
        n_nontriv++;
        if (o != ABORT) {
          viol(sg("register", "outside-window"), kase, "register_callback on a sandbox that is not created did not abort");
          return false;
        }
        break; // refused: nothing changed; the history goes on
      }
      if (o != RET) {
        viol(sg("register", "abort"), kase, "registration on a created sandbox aborted");
        return false;
      }
      m.own[i] = 1;
      m.owninc[i] = m.inc[i];
      // the callback is callable
      g_cb_ran = 0;
      int r = -1;
      auto o2 = attempt([&] { r = sb.invoke_sandbox_function(call_cb_n, *w.own[i], 1, 1).UNSAFE_unverified(); });
      if (o2 != RET || r != 6 || g_cb_ran != 1) viol(sg("register", "callback-not-callable"), kase, "callback registered in this incarnation is not callable from the sandbox");
      break;
    }
    case 'u': {
      if (!w.own[i]) return true;
      auto o = attempt([&] { w.own[i].reset(); });
      if (o != RET) {
        viol(sg("end-owner", "abort"), kase, std::string("ending a callback owner aborted (sandbox ") + (m.st[i] == S_CREATED ? "created" : "not created") + ")");
        return false;
      }
      m.own[i] = 0;
      break;
    }
    case 'g': {
      // take the address of gfn and pass it through a function-pointer cell (the finder path)
      if (m.st[i] != S_CREATED) return true;
      auto o = attempt([&] {
        auto pf = sb.malloc_in_sandbox<int (*)(long)>();
        auto fa = sb.get_sandbox_function_address(gfn);
        *pf = fa;
        tn<int (*)(long)> fb = *pf;
        void* wantf = symtab(m.lib[i], "gfn");
        if ((void*)fb.UNSAFE_unverified() != wantf) viol(sg("function-address", "other-library"), kase, "object " + std::to_string(i) + " bound to library " + std::to_string(m.lib[i]) + ": get_sandbox_function_address/load resolves to a different library's function");
        sb.free_in_sandbox(pf);
      });
      sb.get_sandbox_impl()->brk = 16;
      if (o != RET) {
        viol(sg("function-address", "abort"), kase, "taking a function address on a created sandbox aborted");
        return false;
      }
      m.ever[i] |= 2;
      m.last[i] = 2;
      n_nontriv++;
      break;
    }
    case 'i': {
      if (m.st[i] != S_CREATED) return true; // invoking a dead sandbox is outside RLBox's stated checks
      int r = -1;
      auto o = attempt([&] { r = sb.invoke_sandbox_function(lib_id).UNSAFE_unverified(); });
      if (o != RET) {
        viol(sg("invoke", "abort"), kase, "invoke by name aborted");
        return false;
      }
      n_nontriv++;
      m.ever[i] |= 1;
      m.last[i] = 1;
      if (r != m.lib[i]) viol(sg("invoke", "old-library"), kase, "object " + std::to_string(i) + " is bound to library " + std::to_string(m.lib[i]) + " but lib_id() resolved by name ran library " + std::to_string(r) + "'s function (stale symbol cache)");
      break;
    }
  }
  w.hist += (w.hist.empty() ? "" : " ") + ops(op);
  if ((n_trans % 20011) == 7) {
    std::string l;
    for (int x : m.order) l += std::to_string(x);
    sample("{\"history\":\"" + w.hist + "\",\"model_status\":\"" + std::to_string(m.st[0]) + std::to_string(m.st[1]) + std::to_string(m.st[2]) + "\",\"model_live_list\":\"" + l + "\"}", 6);
  }
  long long before = g_nviol;
  observe(w, w.hist);
  observe_dead(w.hist);
  return g_nviol == before;
}

static bool replay(World& w, const std::vector<Op>& h)
{
  for (auto& op : h)
    if (!apply(w, op)) return false;
  return true;
}
static void teardown(World& w)
{
  for (int i = 0; i < 3; i++) {
    try {
      w.own[i].reset();
    } catch (...) {
    }
  }
  for (int i = 0; i < 3; i++) {
    try {
      if (w.m.st[i] == S_CREATED) w.s[i].destroy_sandbox();
    } catch (...) {
    }
    // a failed create leaves the object INITIALIZING; nothing to release
  }
  // make sure the process-wide list is clean for the next replay even after a violated state
  sbx_t::sandbox_list.clear();
}

// the cache of addresses handed out as tainted function pointers, if the tree under test has a separate one
template<class S, class = void>
struct cache2
{
  static std::string names(S&) { return ""; }
};
template<class S>
struct cache2<S, std::void_t<decltype(std::declval<S&>().internal_func_ptr_map)>>
{
  static std::string names(S& s)
  {
    std::string r;
    for (auto& e : s.internal_func_ptr_map) r += e.first + "=" + std::to_string(reinterpret_cast<uintptr_t>(e.second)) + ":";
    return r;
  }
};
static std::string cache2_names(sbx_t& s) { return cache2<sbx_t>::names(s); }
static std::string key(World& w)
{
  auto& m = w.m;
  std::string k;
  for (int i = 0; i < 3; i++) {
    bool stale = m.own[i] && m.owninc[i] != m.inc[i];
    k += std::to_string(m.st[i]) + std::to_string(m.lib[i]) + (w.own[i] ? (stale ? "s" : "o") : "-") + std::to_string(std::min(m.inc[i], 2)) + "e" + std::to_string(m.ever[i]) + "l" + std::to_string(m.last[i]) + ";";
  }
  k += "|";
  for (int i : m.order) k += std::to_string(i);
  // implementation side: symbol cache and key list sizes, status word
  for (int i = 0; i < 3; i++) {
    k += "|";
    // by content (name AND cached address): two states that cache the same name with different addresses have different futures
    for (auto& e : w.s[i].func_ptr_map) k += e.first + "=" + std::to_string(reinterpret_cast<uintptr_t>(e.second)) + ":";
    k += "/" + cache2_names(w.s[i]);
    k += "," + std::to_string(w.s[i].callback_keys.size()) + "," + std::to_string((int)w.s[i].sandbox_created.load());
  }
  return k;
}

// registration probe on a replayed copy
static void probes(const std::vector<Op>& h)
{
  for (int i = 0; i < 3; i++) {
    World w;
    if (replay(w, h)) {
      bool expect_ok = w.m.st[i] == S_CREATED && !w.m.registered(i);
      if (w.m.st[i] == S_CREATED) {
        std::optional<CB> tmp;
        auto o = attempt([&] { tmp.emplace(w.s[i].register_callback(cbf)); });
        n_eval++;
        if (expect_ok && o != RET) {
          bool stale = w.m.own[i] && w.m.owninc[i] != w.m.inc[i];
          viol(sg("register-probe", stale ? "old-incarnation-registration-visible" : "abort"), w.hist + " probe" + std::to_string(i), "object " + std::to_string(i) + ": the function is not registered in this incarnation but registering it aborted" + (stale ? " (an owner of the previous incarnation still exists)" : ""));
        }
        if (!expect_ok && o == RET) viol(sg("register-probe", "duplicate-accepted"), w.hist + " probe" + std::to_string(i), "function registered twice in one incarnation");
        try {
          tmp.reset();
        } catch (...) {
        }
      }
    }
    teardown(w);
  }
}

int main(int argc, char** argv)
{
  parse(argc, argv);
  bool thorough = has_flag("--thorough");
  mb::g_symtab = symtab;
  if (g_args.replay) {
    std::vector<Op> h;
    int probe = -1;
    for (auto& t : split(g_args.replay, ' ')) {
      if (t.rfind("probe", 0) == 0) probe = atoi(t.c_str() + 5);
      else if (t.size() == 2) h.push_back({ t[0], t[1] - '0' });
    }
    if (probe >= 0) probes(h);
    else {
      World w;
      replay(w, h);
      teardown(w);
    }
    stat("evaluations", n_eval + n_trans);
    finish();
    return 0;
  }
  std::vector<Op> alpha;
  for (int i = 0; i < 3; i++)
    for (char k : { 'a', 'b', 'f', 'd', 'r', 'u', 'i', 'g' }) alpha.push_back({ k, i });
  int depth = thorough ? 10 : 6;
  std::deque<std::vector<Op>> frontier;
  std::unordered_set<std::string> seen;
  frontier.push_back({});
  {
    World w;
    seen.insert(key(w));
    teardown(w);
  }
  uint64_t idx = 0;
  size_t maxd = 0;
  while (!frontier.empty()) {
    auto h = std::move(frontier.front());
    frontier.pop_front();
    n_states++;
    maxd = std::max(maxd, h.size());
    // the BFS itself is sequential (its frontier is the deduplicated state set); the per-state work is split
    if (mine(idx++)) probes(h);
    if ((int)h.size() >= depth) continue;
    if (expired()) break;
    for (auto& op : alpha) {
      auto h2 = h;
      h2.push_back(op);
      World w;
      bool ok = replay(w, h2);
      if (ok) {
        auto k = key(w);
        if (seen.insert(k).second) frontier.push_back(h2);
      }
      teardown(w);
    }
  }
  if (g_args.part == 0) {
    stat("states", n_states);
    stat("transitions", n_trans);
    stat("traces", n_trans);
  }
  stat("evaluations", (g_args.part == 0 ? n_trans : 0) + n_eval);
  stat("nontrivial", g_args.part == 0 ? n_nontriv : 0);
  sample("{\"history\":\"a0 r0 d0 b0 i0\",\"meaning\":\"create object 0 with library 1, register a callback, destroy, create again with library 2, invoke lib_id by name -> must run library 2\"}", 1);
  stat("max_depth", g_args.part == 0 ? (long long)maxd : 0);
  finish(expired());
  return 0;
}
