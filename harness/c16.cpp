// C16 — operators on tainted numbers compute exactly what the plain operators compute.
// Differential: for each operator x wrapper combination x operand type pair (C16_A is the left type of
// this translation unit) x value pair with defined plain behaviour, the wrapped expression must have the
// wrapper RLBox documents over decltype(plain expression) and the same value, bit for bit; operands are
// updated exactly as the plain operator would update them (a tainted_volatile update may abort instead
// when the plain result does not fit the guest cell type).
#include <cstdint>
static thread_local int g_abort_flag = 0;
#define RLBOX_CUSTOM_ABORT(msg) (g_abort_flag = 1)
#include "rlbox.hpp"
#include "mbox.hpp"
#include "vcommon.hpp"

using namespace vc;
using Cfg = mb::cfg<uint16_t, mb::abi_lp32, mb::MASK, 2>;
using SB = mb::mbox<Cfg>;
using sbx_t = rlbox::rlbox_sandbox<SB>;
template<class T>
using tn = rlbox::tainted<T, SB>;
template<class T>
using tv = rlbox::tainted_volatile<T, SB>;

#ifndef C16_A
#  define C16_A int
#endif
// bit i selects operator i of (IntOps/FltOps ++ IntCops/FltCops ++ [28]=unary/incdec/not); default: all
#ifndef C16_OPMASK
#  define C16_OPMASK 0xFFFFFFFFull
#endif
#ifndef C16_BS
#  define C16_BS signed char, unsigned char, short, unsigned short, int, unsigned, long, unsigned long long
#endif

static sbx_t* g_sb;
static uintptr_t g_base;
static long long n_eval = 0, n_nontriv = 0, n_undefined_skipped = 0, n_abort_ok = 0;
static bool g_thorough = false;

template<class T>
static const char* tnm()
{
  if constexpr (std::is_same_v<T, float>) return "float";
  else if constexpr (std::is_same_v<T, double>) return "double";
  else return tname<T>();
}

template<class T>
static i128 m(T v)
{
  if constexpr (std::is_floating_point_v<T>) return (i128)v;
  else if constexpr (std::is_signed_v<T>) return (i128)v;
  else return (i128)(u128)v;
}
template<class T>
static std::string vstr(T v)
{
  if constexpr (std::is_floating_point_v<T>) {
    char b[64];
    snprintf(b, sizeof b, "%a", (double)v);
    return b;
  } else if constexpr (std::is_same_v<T, bool>) return v ? "true" : "false";
  else return str(m(v));
}
template<class T>
static bool same_bits(T a, T b)
{
  return memcmp(&a, &b, sizeof(T)) == 0;
}

// ---- operators ---------------------------------------------------------------------------------
enum Kind
{
  K_ARITH,
  K_CMP,
  K_LOGIC
};
#define BINOP(NAME, SYM, KIND, INTONLY)                                                                            \
  struct NAME                                                                                                      \
  {                                                                                                                \
    static constexpr const char* n = #SYM;                                                                         \
    static constexpr Kind kind = KIND;                                                                             \
    static constexpr bool intonly = INTONLY;                                                                       \
    template<class X, class Y>                                                                                     \
    static auto ap(X& x, Y& y) -> decltype(x SYM y)                                                                \
    {                                                                                                              \
      return x SYM y;                                                                                              \
    }                                                                                                              \
  };
BINOP(OAdd, +, K_ARITH, false)
BINOP(OSub, -, K_ARITH, false)
BINOP(OMul, *, K_ARITH, false)
BINOP(ODiv, /, K_ARITH, false)
BINOP(OMod, %, K_ARITH, true)
BINOP(OXor, ^, K_ARITH, true)
BINOP(OAnd, &, K_ARITH, true)
BINOP(OOr, |, K_ARITH, true)
BINOP(OShl, <<, K_ARITH, true)
BINOP(OShr, >>, K_ARITH, true)
BINOP(OEq, ==, K_CMP, false)
BINOP(ONe, !=, K_CMP, false)
BINOP(OLt, <, K_CMP, false)
BINOP(OLe, <=, K_CMP, false)
BINOP(OGt, >, K_CMP, false)
BINOP(OGe, >=, K_CMP, false)
BINOP(OLand, &&, K_LOGIC, true)
BINOP(OLor, ||, K_LOGIC, true)
#undef BINOP
#define CMPOP(NAME, SYM)                                                                                           \
  struct NAME                                                                                                      \
  {                                                                                                                \
    static constexpr const char* n = #SYM;                                                                         \
    template<class X, class Y>                                                                                     \
    static auto ap(X& x, Y& y) -> decltype(x SYM y)                                                                \
    {                                                                                                              \
      return x SYM y;                                                                                              \
    }                                                                                                              \
  };
CMPOP(CAdd, +=)
CMPOP(CSub, -=)
CMPOP(CMul, *=)
CMPOP(CDiv, /=)
CMPOP(CMod, %=)
CMPOP(CXor, ^=)
CMPOP(CAnd, &=)
CMPOP(COr, |=)
CMPOP(CShl, <<=)
CMPOP(CShr, >>=)
#undef CMPOP
template<class C>
struct base_of;
#define BO(C, B)                                                                                                   \
  template<>                                                                                                       \
  struct base_of<C>                                                                                                \
  {                                                                                                                \
    using type = B;                                                                                                \
  };
BO(CAdd, OAdd) BO(CSub, OSub) BO(CMul, OMul) BO(CDiv, ODiv) BO(CMod, OMod) BO(CXor, OXor) BO(CAnd, OAnd) BO(COr, OOr) BO(CShl, OShl) BO(CShr, OShr)
#undef BO

template<class Op, class L, class R, class = void>
struct can_ap : std::false_type
{};
template<class Op, class L, class R>
struct can_ap<Op, L, R, std::void_t<decltype(Op::ap(std::declval<L&>(), std::declval<R&>()))>> : std::true_type
{};

// is the *plain* expression a OP b defined?  (reference predicate, exact arithmetic)
template<class Op, class A, class B>
static bool defined_plain(A a, B b)
{
  if constexpr (std::is_floating_point_v<A> || std::is_floating_point_v<B>) {
    if constexpr (std::is_same_v<Op, ODiv>) return (double)b != 0.0;
    return true; // value sets keep floating results finite
  } else {
    using R = decltype(std::declval<A>() + std::declval<B>()); // common type
    using PL = decltype(+std::declval<A>());                   // promoted left (shift result type)
    i128 x = m(a), y = m(b);
    // operands as converted to the common type
    i128 xr = m((R)a), yr = m((R)b);
    auto fits = [](i128 v) { return representable<R>(v); };
    if constexpr (std::is_same_v<Op, OAdd>) return std::is_unsigned_v<R> || fits(xr + yr);
    else if constexpr (std::is_same_v<Op, OSub>) return std::is_unsigned_v<R> || fits(xr - yr);
    else if constexpr (std::is_same_v<Op, OMul>) return std::is_unsigned_v<R> || fits(xr * yr);
    else if constexpr (std::is_same_v<Op, ODiv> || std::is_same_v<Op, OMod>) {
      if (yr == 0) return false;
      if (std::is_signed_v<R> && xr == (i128)std::numeric_limits<R>::min() && yr == -1) return false;
      return true;
    } else if constexpr (std::is_same_v<Op, OShl> || std::is_same_v<Op, OShr>) {
      const int bits = sizeof(PL) * 8;
      if (y < 0 || y >= bits) return false;
      i128 xl = m((PL)a);
      if constexpr (std::is_same_v<Op, OShl>) {
        if (std::is_signed_v<PL>) {
          if (xl < 0) return false;
          if ((xl << (int)y) > (i128)std::numeric_limits<PL>::max()) return false;
        }
      }
      (void)x;
      return true;
    } else
      return true;
  }
}

// ---- operand holders ---------------------------------------------------------------------------
static const uint64_t CELL_L = 0x100, CELL_R = 0x140;
// W: 0 tainted, 1 tainted_volatile, 2 plain
template<class T, int W, class F>
static bool with_opnd(T v, uint64_t cell, F&& f)
{
  if constexpr (W == 2) {
    T x = v;
    f(x);
    return true;
  } else if constexpr (W == 0) {
    tn<T> x = v;
    f(x);
    return true;
  } else {
    tn<T*> p;
    p.assign_raw_pointer(*g_sb, reinterpret_cast<T*>(g_base + cell));
    g_abort_flag = 0;
    *p = v;
    if (g_abort_flag) return false; // not representable in the guest cell: case does not exist
    f(*p);
    return true;
  }
}
template<class T, class X>
static T value_of(X& x)
{
  if constexpr (std::is_arithmetic_v<std::remove_cv_t<std::remove_reference_t<X>>>) return x;
  else return x.UNSAFE_unverified();
}
static const char* wn[] = { "tainted", "tainted_volatile", "plain" };

template<class Op, class A, class B, int LW, int RW>
static void bin_case(A a, B b)
{
  if constexpr (LW == 2 && RW == 2) {
    return;
  } else {
    if (!defined_plain<Op, A, B>(a, b)) {
      n_undefined_skipped++;
      return;
    }
    A pa = a;
    B pb = b;
    using P = decltype(Op::ap(pa, pb));
    P plain = Op::ap(pa, pb);
    bool exists = with_opnd<A, LW>(a, CELL_L, [&](auto& l) {
      with_opnd<B, RW>(b, CELL_R, [&](auto& r) {
        using TL_ = std::remove_reference_t<decltype(l)>;
        using TR_ = std::remove_reference_t<decltype(r)>;
        if constexpr (!can_ap<Op, TL_, TR_>::value) {
          // combination is not offered by RLBox (e.g. tainted_volatile & tainted_volatile): nothing to compare
          setadd("not_offered", std::string(Op::n) + ":" + wn[LW] + ":" + wn[RW]);
        } else {
        g_abort_flag = 0;
        auto res = Op::ap(l, r);
        bool ab = g_abort_flag;
        using W = decltype(res);
        constexpr bool any_vol = (LW == 1 || RW == 1);
        using Expect = std::conditional_t<Op::kind == K_CMP && any_vol, rlbox::tainted_boolean_hint, tn<P>>;
        n_eval++;
        if (m(a) < 0 || m(a) > 127 || m(b) < 0 || m(b) > 127) n_nontriv++;
        std::string kase = std::string("bin|") + Op::n + "|" + tnm<A>() + "|" + tnm<B>() + "|" + wn[LW] + "|" + wn[RW] + "|" + vstr(a) + "|" + vstr(b);
        std::string sg = std::string("C16 op=") + Op::n + " lhs=" + wn[LW] + "<" + tnm<A>() + "> rhs=" + wn[RW] + "<" + tnm<B>() + ">";
        if constexpr (!std::is_same_v<W, Expect>) {
          viol(sg + " kind=result-type", kase, std::string("wrapped expression has an unexpected C++ type (expected wrapper over ") + tnm<P>() + ")");
        } else {
          P got = (P)res.UNSAFE_unverified();
          if (ab) viol(sg + " kind=spurious-abort", kase, "operator aborted");
          else if (!same_bits(got, plain)) viol(sg + " kind=value", kase, "wrapped result " + vstr(got) + " != plain result " + vstr(plain));
          // operands untouched
          if (!same_bits(value_of<A>(l), a) || !same_bits(value_of<B>(r), b)) viol(sg + " kind=operand-changed", kase, "a non-assigning operator modified an operand");
        }
        }
      });
    });
    (void)exists;
  }
}

// compound assignment: l OP= r
template<class Cop, class A, class B, int LW, int RW>
static void cmp_case(A a, B b)
{
  using Op = typename base_of<Cop>::type;
  if constexpr (LW == 2) {
    return;
  } else {
    using P = decltype(std::declval<A&>() + std::declval<B&>());
    using PR = decltype(Op::ap(std::declval<A&>(), std::declval<B&>()));
    // tainted<A> OP= compiles only when the result type is A again (no converting assignment)
    // tainted_volatile<A> OP= converts the result into the guest cell: integer<->floating conversions are rejected at compile time
    if constexpr ((LW == 0 && !std::is_same_v<PR, A>) || (LW == 1 && std::is_floating_point_v<PR> != std::is_floating_point_v<A>)) {
      return;
    } else {
      if (!defined_plain<Op, A, B>(a, b)) {
        n_undefined_skipped++;
        return;
      }
      A pa = a;
      B pb = b;
      PR exact = Op::ap(pa, pb); // value before narrowing to A
      Cop::ap(pa, pb);           // plain update
      with_opnd<A, LW>(a, CELL_L, [&](auto& l) {
        with_opnd<B, RW>(b, CELL_R, [&](auto& r) {
          g_abort_flag = 0;
          auto& ret = Cop::ap(l, r);
          bool ab = g_abort_flag;
          n_eval++;
          if (m(a) < 0 || m(a) > 127 || m(b) < 0 || m(b) > 127) n_nontriv++;
          std::string kase = std::string("cmp|") + Cop::n + "|" + tnm<A>() + "|" + tnm<B>() + "|" + wn[LW] + "|" + wn[RW] + "|" + vstr(a) + "|" + vstr(b);
          std::string sg = std::string("C16 op=") + Cop::n + " lhs=" + wn[LW] + "<" + tnm<A>() + "> rhs=" + wn[RW] + "<" + tnm<B>() + ">";
          if (reinterpret_cast<const volatile char*>(&reinterpret_cast<const volatile char&>(ret)) != reinterpret_cast<const volatile char*>(&reinterpret_cast<const volatile char&>(l)))
            viol(sg + " kind=ret-not-operand", kase, "compound assignment did not return a reference to its left operand");
          if (LW == 1) {
            // guest cell type
            using G = typename sbx_t::template convert_to_sandbox_equivalent_nonclass_t<A>;
            bool fits;
            if constexpr (std::is_floating_point_v<PR> || std::is_floating_point_v<A>) fits = true;
            else fits = representable<G>(m(exact));
            if (ab) {
              if (fits) viol(sg + " kind=spurious-abort", kase, "plain result " + vstr(exact) + " fits the guest cell but the update aborted");
              else n_abort_ok++;
              return;
            }
            if (!fits) {
              // no abort although the exact result does not fit: the cell must then hold what plain C++ stores
              A now = value_of<A>(l);
              if (!same_bits(now, pa)) viol(sg + " kind=operand-value", kase, "result does not fit the guest cell, no abort, cell holds " + vstr(now) + " plain operand holds " + vstr(pa));
              return;
            }
          } else if (ab) {
            viol(sg + " kind=spurious-abort", kase, "compound assignment on a tainted aborted");
            return;
          }
          A now = value_of<A>(l);
          if (!same_bits(now, pa)) viol(sg + " kind=operand-value", kase, "operand holds " + vstr(now) + ", plain operand holds " + vstr(pa));
          if (!same_bits(value_of<B>(r), b)) viol(sg + " kind=operand-changed", kase, "right operand modified");
        });
      });
    }
  }
}

// unary - ~ !, pre/post ++ --
template<class A, int LW>
static void unary_cases(A a)
{
  if constexpr (LW == 2) {
    return;
  } else {
    auto kase = [&](const char* op) { return std::string("un|") + op + "|" + tnm<A>() + "|-|" + wn[LW] + "|-|" + vstr(a) + "|0"; };
    auto sg = [&](const char* op) { return std::string("C16 op=") + op + " lhs=" + wn[LW] + "<" + tnm<A>() + ">"; };
    using PA = decltype(+std::declval<A>());
    // unary minus
    if (std::is_floating_point_v<A> || std::is_unsigned_v<PA> || m((PA)a) != (i128)std::numeric_limits<PA>::min()) {
      with_opnd<A, LW>(a, CELL_L, [&](auto& l) {
        A pa = a;
        auto plain = -pa;
        g_abort_flag = 0;
        auto res = -l;
        n_eval++;
        if constexpr (!std::is_same_v<decltype(res), tn<decltype(plain)>>) viol(sg("neg") + " kind=result-type", kase("neg"), "type");
        else if (g_abort_flag || !same_bits(res.UNSAFE_unverified(), plain)) viol(sg("neg") + " kind=value", kase("neg"), "-x: wrapped " + vstr(res.UNSAFE_unverified()) + " plain " + vstr(plain));
      });
    }
    if constexpr (std::is_integral_v<A>) {
      with_opnd<A, LW>(a, CELL_L, [&](auto& l) {
        A pa = a;
        auto plain = ~pa;
        g_abort_flag = 0;
        auto res = ~l;
        n_eval++;
        if constexpr (!std::is_same_v<decltype(res), tn<decltype(plain)>>) viol(sg("compl") + " kind=result-type", kase("compl"), "type");
        else if (g_abort_flag || !same_bits(res.UNSAFE_unverified(), plain)) viol(sg("compl") + " kind=value", kase("compl"), "~x: wrapped " + vstr(res.UNSAFE_unverified()) + " plain " + vstr(plain));
      });
    }
    // ++ / -- : plain semantics x = x +/- 1 computed in the promoted type then converted back
    auto incdec = [&](int dir, bool post) {
      const char* nm = dir > 0 ? (post ? "postinc" : "preinc") : (post ? "postdec" : "predec");
      using PR = decltype(std::declval<A&>() + 1);
      if (LW == 0 && !std::is_same_v<PR, A>) return;   // does not compile (no converting assignment)
      if (LW == 1 && post) return;                    // does not compile (by-value return of tainted_volatile)
      if constexpr ((LW == 0 && !std::is_same_v<PR, A>) ) { return; } else {
        if constexpr (!std::is_floating_point_v<A>) {
          i128 e = m((PR)a) + dir;
          if (std::is_signed_v<PR> && !representable<PR>(e)) {
            n_undefined_skipped++;
            return;
          }
        }
        A pa = a;
        A plain_ret = post ? (dir > 0 ? pa++ : pa--) : (dir > 0 ? ++pa : --pa);
        with_opnd<A, LW>(a, CELL_L, [&](auto& l) {
          g_abort_flag = 0;
          A got_ret{};
          if constexpr (LW == 0) {
            if (post) {
              auto r = dir > 0 ? l++ : l--;
              got_ret = r.UNSAFE_unverified();
            } else {
              auto& r = dir > 0 ? ++l : --l;
              got_ret = r.UNSAFE_unverified();
            }
          } else {
            auto& r = dir > 0 ? ++l : --l;
            if (!g_abort_flag) got_ret = r.UNSAFE_unverified();
          }
          n_eval++;
          n_nontriv++;
          bool ab = g_abort_flag;
          if (LW == 1) {
            using G = typename sbx_t::template convert_to_sandbox_equivalent_nonclass_t<A>;
            bool fits = true;
            if constexpr (!std::is_floating_point_v<A>) fits = representable<G>(m((PR)a) + dir);
            if (ab) {
              if (fits) viol(sg(nm) + " kind=spurious-abort", kase(nm), "result fits the guest cell but the update aborted");
              else n_abort_ok++;
              return;
            }
          } else if (ab) {
            viol(sg(nm) + " kind=spurious-abort", kase(nm), "aborted");
            return;
          }
          A now = value_of<A>(l);
          if (!same_bits(now, pa)) viol(sg(nm) + " kind=operand-value", kase(nm), "operand holds " + vstr(now) + ", plain operand holds " + vstr(pa));
          else if (!same_bits(got_ret, plain_ret)) viol(sg(nm) + " kind=return-value", kase(nm), "expression returned " + vstr(got_ret) + ", plain returns " + vstr(plain_ret));
        });
      }
    };
    incdec(+1, false);
    incdec(+1, true);
    incdec(-1, false);
    incdec(-1, true);
  }
}

// !x exists only for bool
template<int LW>
static void not_case(bool a)
{
  if constexpr (LW != 2) {
    with_opnd<bool, LW>(a, CELL_L, [&](auto& l) {
      g_abort_flag = 0;
      auto res = !l;
      n_eval++;
      using Expect = std::conditional_t<LW == 1, rlbox::tainted_boolean_hint, tn<bool>>;
      std::string kase = std::string("not|!|bool|-|") + wn[LW] + "|-|" + vstr(a) + "|0";
      if constexpr (!std::is_same_v<decltype(res), Expect>) viol(std::string("C16 op=! lhs=") + wn[LW] + "<bool> kind=result-type", kase, "type");
      else if (res.UNSAFE_unverified() != !a) viol(std::string("C16 op=! lhs=") + wn[LW] + "<bool> kind=value", kase, "!x wrong");
    });
  }
}

// ---- value sets --------------------------------------------------------------------------------
template<class T>
static std::vector<T> values(bool full8)
{
  std::vector<T> out;
  if constexpr (std::is_floating_point_v<T>) {
    for (double d : { 0.0, 1.0, -1.0, 0.5, -2.0, 3.25, 1e10, -7.5e-3, 123456.0 }) out.push_back((T)d);
  } else if (sizeof(T) == 1 && full8) {
    for (int v = (int)std::numeric_limits<T>::min(); v <= (int)std::numeric_limits<T>::max(); v++) out.push_back((T)v);
  } else {
    std::set<i128> s{ 0, 1, -1, 2, -2, 3, 7, 100, -100, 127, 128, 255, 256, 32767, 32768, 65535, 65536 };
    const int bits = sizeof(T) * 8;
    s.insert((i128)std::numeric_limits<T>::min());
    s.insert((i128)std::numeric_limits<T>::min() + 1);
    s.insert((i128)(u128)std::numeric_limits<T>::max());
    s.insert((i128)(u128)std::numeric_limits<T>::max() - 1);
    s.insert((i128)1 << (bits / 2));
    s.insert(((i128)1 << (bits / 2)) - 1);
    s.insert((i128)1 << (bits - 2));
    s.insert(bits - 1);
    s.insert(bits);
    s.insert((i128)1 << 31);
    s.insert(((i128)1 << 31) - 1);
    s.insert(((i128)1 << 32) - 1);
    s.insert(-((i128)1 << 31));
    for (i128 v : s)
      if (representable<T>(v)) out.push_back((T)v);
  }
  return out;
}

template<class... Ts>
struct tl
{};
template<class F, class... Ts>
static void for_types(tl<Ts...>, F f)
{
  (f((Ts*)nullptr), ...);
}
using IntOps = tl<OAdd, OSub, OMul, ODiv, OMod, OXor, OAnd, OOr, OShl, OShr, OEq, ONe, OLt, OLe, OGt, OGe, OLand, OLor>;
using FltOps = tl<OAdd, OSub, OMul, ODiv, OEq, ONe, OLt, OLe, OGt, OGe>;
using IntCops = tl<CAdd, CSub, CMul, CDiv, CMod, CXor, CAnd, COr, CShl, CShr>;
using FltCops = tl<CAdd, CSub, CMul, CDiv>;

template<class Op>
struct opindex;
#define OI(O, i)                                                                                                   \
  template<>                                                                                                       \
  struct opindex<O>                                                                                                \
  {                                                                                                                \
    static constexpr int v = i;                                                                                    \
  };
OI(OAdd, 0) OI(OSub, 1) OI(OMul, 2) OI(ODiv, 3) OI(OMod, 4) OI(OXor, 5) OI(OAnd, 6) OI(OOr, 7) OI(OShl, 8) OI(OShr, 9) OI(OEq, 10) OI(ONe, 11) OI(OLt, 12)
OI(OLe, 13) OI(OGt, 14) OI(OGe, 15) OI(OLand, 16) OI(OLor, 17) OI(CAdd, 18) OI(CSub, 19) OI(CMul, 20) OI(CDiv, 21) OI(CMod, 22) OI(CXor, 23) OI(CAnd, 24)
OI(COr, 25) OI(CShl, 26) OI(CShr, 27)
#undef OI
static bool g_replay = false;
static std::vector<std::string> g_rp;

template<class A, class B, int LW, int RW>
static void all_ops(A a, B b)
{
  constexpr bool flt = std::is_floating_point_v<A> || std::is_floating_point_v<B>;
  using Ops = std::conditional_t<flt, FltOps, IntOps>;
  using Cops = std::conditional_t<flt, FltCops, IntCops>;
  for_types(Ops{}, [&](auto* o) {
    using Op = std::remove_pointer_t<decltype(o)>;
    if constexpr ((C16_OPMASK >> opindex<Op>::v) & 1) {
      if (g_replay && (g_rp[0] != "bin" || g_rp[1] != Op::n)) return;
      bin_case<Op, A, B, LW, RW>(a, b);
    }
  });
  for_types(Cops{}, [&](auto* o) {
    using Op = std::remove_pointer_t<decltype(o)>;
    if constexpr ((C16_OPMASK >> opindex<Op>::v) & 1) {
      if (g_replay && (g_rp[0] != "cmp" || g_rp[1] != Op::n)) return;
      cmp_case<Op, A, B, LW, RW>(a, b);
    }
  });
}

template<class A, class B>
static void pair_all(uint64_t& blk)
{
  bool both8 = sizeof(A) == 1 && sizeof(B) == 1;
  auto va = values<A>(both8), vb = values<B>(both8);
  if (g_replay) {
    if (g_rp[2] != tnm<A>() || (g_rp[3] != tnm<B>() && g_rp[3] != "-")) return;
  }
  for (A a : va) {
    if (!g_replay && !mine(blk++)) continue;
    for (B b : vb) {
      if (g_replay && (vstr(a) != g_rp[6] || vstr(b) != g_rp[7])) continue;
      all_ops<A, B, 0, 2>(a, b); // tainted op plain
      all_ops<A, B, 0, 0>(a, b); // tainted op tainted
      all_ops<A, B, 0, 1>(a, b); // tainted op tainted_volatile
      all_ops<A, B, 1, 2>(a, b);
      all_ops<A, B, 1, 0>(a, b);
      all_ops<A, B, 1, 1>(a, b);
      all_ops<A, B, 2, 0>(a, b); // plain op tainted
      all_ops<A, B, 2, 1>(a, b); // plain op tainted_volatile
    }
  }
}

#ifdef C16_ENUM
// ---- a plain unscoped enumeration as the non-wrapped operand ---------------------------------------------------------
// In a plain expression an enumerator of `enum PE { LOW, MID, HIGH }` promotes to int (its values fit), whatever integer
// type the compiler picked to STORE the enumeration (unsigned int for gcc and clang): -1 < MID is true.
enum PE
{
  PE_LOW,
  PE_MID,
  PE_HIGH
};
template<class Op, class A, int LW>
static void enum_case(A a, PE e)
{
  if (!defined_plain<Op, A, int>(a, (int)e)) return;
  A pa = a;
  {
    using P = decltype(Op::ap(pa, e));
    P plain = Op::ap(pa, e);
    with_opnd<A, LW>(a, CELL_L, [&](auto& l) {
      g_abort_flag = 0;
      auto res = Op::ap(l, e);
      bool ab = g_abort_flag;
      using W = decltype(res);
      using Expect = std::conditional_t<Op::kind == K_CMP && LW == 1, rlbox::tainted_boolean_hint, tn<P>>;
      n_eval++;
      n_nontriv++;
      std::string kase = std::string("enum|") + Op::n + "|" + tnm<A>() + "|PE|" + wn[LW] + "|plain|" + vstr(a) + "|" + std::to_string((int)e);
      std::string sg = std::string("C16 op=") + Op::n + " lhs=" + wn[LW] + "<" + tnm<A>() + "> rhs=plain<unscoped enum>";
      if constexpr (!std::is_same_v<W, Expect>) viol(sg + " kind=result-type", kase, "wrapped expression has an unexpected C++ type");
      else {
        P got = (P)res.UNSAFE_unverified();
        if (ab) viol(sg + " kind=spurious-abort", kase, "operator aborted");
        else if (!same_bits(got, plain)) viol(sg + " kind=value", kase, "wrapped result " + vstr(got) + " != plain result " + vstr(plain) + " (an enumerator promotes to int in the plain expression)");
      }
    });
  }
  // (an enumerator on the LEFT of a wrapped operand is rejected by RLBox at compile time: not offered)
}
template<class A>
static void enum_cases()
{
  for (A a : values<A>(true))
    for (PE e : { PE_LOW, PE_MID, PE_HIGH }) {
#  if C16_ENUM == 1
      enum_case<OAdd, A, 0>(a, e); enum_case<OAdd, A, 1>(a, e);
      enum_case<OSub, A, 0>(a, e); enum_case<OSub, A, 1>(a, e);
#  else
      enum_case<OEq, A, 0>(a, e); enum_case<OEq, A, 1>(a, e);
      enum_case<ONe, A, 0>(a, e); enum_case<ONe, A, 1>(a, e);
      enum_case<OLt, A, 0>(a, e); enum_case<OLt, A, 1>(a, e);
      enum_case<OLe, A, 0>(a, e); enum_case<OLe, A, 1>(a, e);
      enum_case<OGt, A, 0>(a, e); enum_case<OGt, A, 1>(a, e);
      enum_case<OGe, A, 0>(a, e); enum_case<OGe, A, 1>(a, e);
#  endif
    }
}
#endif

int main(int argc, char** argv)
{
  parse(argc, argv);
  g_thorough = has_flag("--thorough");
  sbx_t sb;
  sb.create_sandbox(0);
  g_sb = &sb;
  g_base = sb.get_sandbox_impl()->base;
  if (g_args.replay) {
    g_replay = true;
    g_rp = split(g_args.replay, '|');
    if (g_rp.size() < 8) return 2;
  }
#ifdef C16_ENUM
  if ((!g_replay && g_args.part == 0) || (g_replay && (g_rp[0] == "enum" || g_rp[0] == "enumL"))) {
    enum_cases<signed char>();
    enum_cases<short>();
    enum_cases<int>();
    enum_cases<long>();
    enum_cases<unsigned>();
    enum_cases<long long>();
  }
  stat("evaluations", n_eval);
  stat("nontrivial", n_nontriv);
  finish();
  return 0;
#endif
  using A = C16_A;
  uint64_t blk = 0;
  for_types(tl<C16_BS>{}, [&](auto* bp) {
    using B = std::remove_pointer_t<decltype(bp)>;
    pair_all<A, B>(blk);
  });
  // unary forms
#if (C16_OPMASK >> 28) & 1
  if (!g_replay || g_rp[0] == "un") {
    for (A a : values<A>(true)) {
      if (g_replay && (g_rp[2] != tnm<A>() || vstr(a) != g_rp[6])) continue;
      unary_cases<A, 0>(a);
      unary_cases<A, 1>(a);
    }
  }
#endif
#if defined(C16_WITH_NOT) && ((C16_OPMASK >> 28) & 1)
  if (!g_replay || g_rp[0] == "not") {
    not_case<0>(true);
    not_case<0>(false);
    not_case<1>(true);
    not_case<1>(false);
  }
#endif
  stat("evaluations", n_eval);
  stat("nontrivial", n_nontriv);
  stat("undefined_plain_skipped", n_undefined_skipped);
  stat("volatile_update_aborts_accepted", n_abort_ok);
  if (!g_replay) sample(std::string("{\"left_type\":\"") + tnm<A>() + "\",\"right_types\":\"" + "C16_BS" + "\",\"operators\":\"18 binary, 10 compound, neg, compl, pre/post inc/dec\",\"wrappers\":\"{tainted,tainted_volatile,plain}x{plain,tainted,tainted_volatile}\"}", 1);
  finish();
  return 0;
}
