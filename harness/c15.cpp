// C15 — app-pointer tokens: non-zero, bounded, unique, resolvable, released, reusable.
// Engine H. Table level: explicit-state BFS over the *real* app_pointer_map<uint8_t> objects
// (copyable, so a state is an object), in lock-step with a reference map. Owner level: BFS over
// operation histories of app_pointer owners on an 8-bit mbox instance (replayed on fresh objects).
// Built with -fno-access-control: private state is only read, for the deduplication key.
#define RLBOX_USE_EXCEPTIONS
#include "rlbox.hpp"
#include "mbox.hpp"
#include "vcommon.hpp"
#include <bitset>
#include <deque>
#include <optional>
#include <unordered_set>

using namespace vc;
static bool g_thorough = false;
static char g_pool[70000];

// ------------------------------------------------------------------------------------------
// table level
// ------------------------------------------------------------------------------------------
template<class Tok>
struct TState
{
  rlbox::app_pointer_map<Tok> impl;
  std::map<uint64_t, void*> model; // live token -> pointer
  uint32_t nget = 0;
  std::string hist;
};

template<class Tok>
static std::string tkey(const TState<Tok>& s)
{
  std::string k;
  for (auto& kv : s.model) {
    k += std::to_string(kv.first);
    k += ',';
  }
  k += "|c=" + std::to_string((uint64_t)s.impl.counter);
  // implementation's own view of the table (finer key can only split states)
  k += "|n=" + std::to_string(s.impl.pointer_map.size());
  return k;
}

static long long n_states = 0, n_trans = 0, n_eval = 0, n_nontriv = 0;

// performs get on s; returns false if history must end (abort observed)
template<class Tok>
static bool do_get(TState<Tok>& s, uint64_t limit, const std::string& ctx)
{
  void* ptr = &g_pool[s.nget % sizeof g_pool];
  s.nget++;
  uint64_t tok = 0;
  bool full = s.model.size() >= limit;
  auto o = attempt([&] { tok = (uint64_t)(typename std::make_unsigned<Tok>::type)s.impl.get_app_pointer_idx(ptr, (Tok)limit); });
  n_trans++;
  std::string k = ctx + s.hist + " get";
  std::string sg = "C15 level=table op=get";
  if (full) {
    n_nontriv++;
    if (o != ABORT) viol(sg + " kind=no-abort-when-exhausted", k, "all tokens 1.." + std::to_string(limit) + " in use, get returned token " + std::to_string(tok));
    return false;
  }
  if (o != RET) {
    viol(sg + " kind=spurious-abort", k, "free tokens exist (" + std::to_string(s.model.size()) + " of " + std::to_string(limit) + " used) but get aborted");
    return false;
  }
  if (tok == 0) viol(sg + " kind=zero-token", k, "token 0 issued");
  else if (tok > limit) viol(sg + " kind=token-above-limit", k, "token " + std::to_string(tok) + " > limit " + std::to_string(limit));
  else if (s.model.count(tok)) viol(sg + " kind=duplicate-token", k, "token " + std::to_string(tok) + " already in use");
  s.model[tok] = ptr;
  s.hist += " get=" + std::to_string(tok);
  return true;
}

template<class Tok>
static void check_lookups(TState<Tok>& s, uint64_t limit, const std::string& ctx, uint64_t probe_hi)
{
  for (uint64_t t = 1; t <= probe_hi; t++) {
    void* r = nullptr;
    auto o = attempt([&] { r = s.impl.lookup_index((Tok)t); });
    n_eval++;
    auto it = s.model.find(t);
    if (it != s.model.end()) {
      if (o != RET) viol("C15 level=table op=lookup kind=live-token-aborts", ctx + s.hist + " lookup " + std::to_string(t), "lookup of live token aborted");
      else if (r != it->second) viol("C15 level=table op=lookup kind=wrong-pointer", ctx + s.hist + " lookup " + std::to_string(t), "lookup returned a different pointer than the one registered");
    } else {
      if (o != ABORT) viol("C15 level=table op=lookup kind=dead-token-resolves", ctx + s.hist + " lookup " + std::to_string(t), "lookup of a token that is not in use returned instead of aborting");
    }
  }
}

// every live token still resolves to its own pointer: run on EVERY successor before deduplication, because the state key
// (token set, cursor, table size) does not contain the stored pointers - a successor whose table content was damaged must
// not be merged unseen with an intact state that has the same key
template<class Tok>
static void check_live(TState<Tok>& s, const std::string& ctx)
{
  for (auto& kv : s.model) {
    void* r = nullptr;
    auto o = attempt([&] { r = s.impl.lookup_index((Tok)kv.first); });
    n_eval++;
    if (o != RET) viol("C15 level=table op=lookup kind=live-token-aborts", ctx + s.hist + " lookup " + std::to_string(kv.first), "lookup of live token aborted");
    else if (r != kv.second) viol("C15 level=table op=lookup kind=wrong-pointer", ctx + s.hist + " lookup " + std::to_string(kv.first), "lookup returned a different pointer than the one registered");
  }
}

template<class Tok>
static bool do_remove(TState<Tok>& s, uint64_t t, const std::string& ctx)
{
  bool live = s.model.count(t);
  auto o = attempt([&] { s.impl.remove_app_ptr((Tok)t); });
  n_trans++;
  std::string k = ctx + s.hist + " remove " + std::to_string(t);
  if (live) {
    if (o != RET) {
      viol("C15 level=table op=remove kind=live-token-aborts", k, "removing a live token aborted");
      return false;
    }
    s.model.erase(t);
    s.hist += " rm=" + std::to_string(t);
    return true;
  }
  n_nontriv++;
  if (o != ABORT) viol("C15 level=table op=remove kind=dead-token-removed", k, "removing a token that is not in use did not abort");
  return false;
}

// complete reachable state space for one limit (8-bit tokens)
static void table_full_space(unsigned limit)
{
  using Tok = uint8_t;
  std::string ctx = "T8 L=" + std::to_string(limit) + ":";
  std::deque<TState<Tok>> frontier;
  std::unordered_set<std::string> seen;
  frontier.emplace_back();
  seen.insert(tkey(frontier.front()));
  uint64_t probe_hi = std::min<uint64_t>(limit + 2, 255);
  size_t maxdepth = 0;
  while (!frontier.empty()) {
    TState<Tok> s = std::move(frontier.front());
    frontier.pop_front();
    n_states++;
    check_lookups(s, limit, ctx, probe_hi);
    // successors
    {
      TState<Tok> c = s;
      if (do_get(c, limit, ctx)) {
        check_live(c, ctx);
        auto k = tkey(c);
        if (seen.insert(k).second) frontier.push_back(std::move(c));
      }
    }
    for (uint64_t t = 1; t <= probe_hi; t++) {
      TState<Tok> c = s;
      if (do_remove(c, t, ctx)) {
        check_live(c, ctx);
        auto k = tkey(c);
        if (seen.insert(k).second) frontier.push_back(std::move(c));
      }
    }
    maxdepth = std::max(maxdepth, s.hist.size());
  }
  if (limit <= 3 || limit == 12)
    sample("{\"level\":\"table\",\"token_bits\":8,\"limit\":" + std::to_string(limit) + ",\"reachable_states\":" + std::to_string(seen.size()) + "}", 50);
  setadd("limits_complete", std::to_string(limit));
}

// full-minus-holes family for larger limits
template<class Tok>
static void table_holes(uint64_t limit, const std::vector<uint64_t>& cursors_seed, bool all_pairs, const char* tag)
{
  std::string ctx0 = std::string(tag) + " L=" + std::to_string(limit) + ":";
  // base: table filled completely
  TState<Tok> full;
  for (uint64_t i = 0; i < limit; i++)
    if (!do_get(full, limit, ctx0)) return;
  full.hist = " fill";
  uint64_t probe_hi = std::min<uint64_t>(limit + 2, (uint64_t)std::numeric_limits<Tok>::max());
  uint64_t caseidx = 0;
  for (uint64_t c : cursors_seed) {
    if (c < 1 || c > limit) continue;
    // move the cursor: release c and take it again -> cursor = c+1, table full
    TState<Tok> base = full;
    if (!do_remove(base, c, ctx0)) continue;
    if (!do_get(base, limit, ctx0)) continue;
    base.hist = " fill;cursor-after=" + std::to_string(c);
    // hole sets: none, one hole, two holes
    std::vector<std::pair<uint64_t, uint64_t>> holes;
    holes.push_back({ 0, 0 });
    for (uint64_t h1 = 1; h1 <= limit; h1++) {
      holes.push_back({ h1, 0 });
      if (all_pairs)
        for (uint64_t h2 = h1 + 1; h2 <= limit; h2++) holes.push_back({ h1, h2 });
      else
        for (uint64_t h2 : { (uint64_t)1, h1 + 1, limit / 2, limit - 1, limit })
          if (h2 > h1 && h2 <= limit) holes.push_back({ h1, h2 });
    }
    for (auto& h : holes) {
      if (!mine(caseidx++)) continue;
      if (expired()) return;
      TState<Tok> s = base;
      bool ok = true;
      if (h.first) ok = ok && do_remove(s, h.first, ctx0);
      if (ok && h.second) ok = ok && do_remove(s, h.second, ctx0);
      if (!ok) continue;
      n_states++;
      // light lookup probe: holes, neighbours, ends (complete probes happen for the base state)
      for (uint64_t t : { h.first, h.second, h.first + 1, h.second + 1, (uint64_t)1, limit, limit + 1 }) {
        if (t == 0 || t > probe_hi) continue;
        void* r = nullptr;
        auto o = attempt([&] { r = s.impl.lookup_index((Tok)t); });
        n_eval++;
        auto it = s.model.find(t);
        if (it != s.model.end() ? (o != RET || r != it->second) : (o != ABORT))
          viol("C15 level=table op=lookup kind=mismatch", ctx0 + s.hist + " lookup " + std::to_string(t), "lookup disagrees with reference map");
      }
      // refill to exhaustion and one more
      TState<Tok> c2 = s;
      int guard = 0;
      while (do_get(c2, limit, ctx0) && guard++ < 4) {}
      // removing a hole must abort
      if (h.first) {
        TState<Tok> c3 = s;
        do_remove(c3, h.first, ctx0);
      }
    }
    if (c == cursors_seed.front()) {
      TState<Tok> pb = base;
      check_lookups(pb, limit, ctx0, probe_hi);
    }
  }
  setadd("limits_holes", std::string(tag) + ":" + std::to_string(limit));
}

// scripted long histories (cursor wraps several times)
template<class Tok>
static void table_script(uint64_t limit, const char* tag, int rounds)
{
  std::string ctx = std::string(tag) + "script L=" + std::to_string(limit) + ":";
  TState<Tok> s;
  for (uint64_t i = 0; i < limit; i++)
    if (!do_get(s, limit, ctx)) return;
  s.hist = " fill";
  for (int r = 0; r < rounds; r++) {
    // release every (r+2)-th token, then re-acquire all of them; cursor wraps
    std::vector<uint64_t> rel;
    for (uint64_t t = 1 + (r % 3); t <= limit; t += (r + 2)) rel.push_back(t);
    for (uint64_t t : rel)
      if (!do_remove(s, t, ctx)) return;
    s.hist = " fill;round" + std::to_string(r) + ";released";
    for (size_t i = 0; i < rel.size(); i++)
      if (!do_get(s, limit, ctx)) return;
    s.hist = " fill;round" + std::to_string(r) + ";refilled";
    n_states++;
  }
  {
    TState<Tok> c = s;
    do_get(c, limit, ctx); // full again: must abort
  }
  uint64_t probe_hi = std::min<uint64_t>(limit + 2, (uint64_t)std::numeric_limits<Tok>::max());
  if (limit <= 70000) check_lookups(s, limit, ctx, probe_hi);
  setadd("scripts", std::string(tag) + ":" + std::to_string(limit));
}

// ------------------------------------------------------------------------------------------
// owner level (mbox with 8-bit pointers, 128 bytes of memory => limit 127)
// ------------------------------------------------------------------------------------------
using C8 = mb::cfg<uint8_t, mb::abi_lp32, mb::MASK, 2, false, 7>;
using SB = mb::mbox<C8>;
using sbx_t = rlbox::rlbox_sandbox<SB>;
using AP = rlbox::app_pointer<int*, SB>;
static int g_objs[3];
static int g_fill_obj;

struct Op
{
  char kind; // g=get-assign e=emplace u=unregister d=destroy m=move-assign c=move-construct s=store/load roundtrip R=destroy and re-create the sandbox
  int i, j;
};
static std::string opstr(const Op& o)
{
  char b[32];
  snprintf(b, sizeof b, "%c%d%d", o.kind, o.i, o.j);
  return b;
}

struct OwnerModel
{
  // owner: 0 absent, 1 empty (default/moved-from/unregistered), 2 live
  int st[3] = { 0, 0, 0 };
  uint64_t tok[3] = { 0, 0, 0 };
  int obj[3] = { -1, -1, -1 };
  int recreated = 0;                  // the sandbox object was destroyed and created again at least once (owners survive that)
  std::map<uint64_t, int> live;       // token -> object index (-2 = filler)
  std::set<uint64_t> ever;            // every token ever issued
};

struct OwnerRun
{
  sbx_t sb;
  std::optional<AP> own[3];
  std::vector<AP> fillers;
  OwnerModel m;
  bool aborted = false;
  std::string hist;
};

static const unsigned kLimit = 127;

static void owner_check_state(OwnerRun& r, const std::string& k)
{
  // every live token resolves to its pointer; every dead token ever issued aborts
  for (uint64_t t : r.m.ever) {
    auto tp = rlbox::tainted<int*, SB>::internal_factory(reinterpret_cast<int*>(r.sb.get_sandbox_impl()->base + t));
    int* got = nullptr;
    auto o = attempt([&] { got = r.sb.lookup_app_ptr(tp); });
    n_eval++;
    auto it = r.m.live.find(t);
    if (it != r.m.live.end()) {
      int* want = it->second >= 0 ? &g_objs[it->second] : &g_fill_obj;
      if (o != RET) viol("C15 level=owner op=lookup kind=live-token-aborts", k, "token " + std::to_string(t));
      else if (got != want) viol("C15 level=owner op=lookup kind=wrong-pointer", k, "token " + std::to_string(t));
    } else if (o != ABORT) {
      viol("C15 level=owner op=lookup kind=released-token-still-resolves", k,
           "token " + std::to_string(t) + " belongs to no live owner (released by unregister/destroy/overwrite) but lookup_app_ptr still returns a pointer");
    }
  }
  for (int i = 0; i < 3; i++) {
    if (!r.own[i]) continue;
    bool un = r.own[i]->is_unregistered();
    if (un != (r.m.st[i] != 2)) viol("C15 level=owner op=is_unregistered kind=mismatch", k, "owner " + std::to_string(i));
    if (r.m.st[i] == 2) {
      uint64_t t = (uint64_t)r.own[i]->UNSAFE_sandboxed(r.sb);
      if (t != r.m.tok[i]) viol("C15 level=owner op=token kind=owner-token-changed", k, "owner " + std::to_string(i));
    }
  }
}

static void owner_new_token(OwnerRun& r, int i, int obj, const std::string& k)
{
  uint64_t t = (uint64_t)r.own[i]->UNSAFE_sandboxed(r.sb);
  if (t == 0) viol("C15 level=owner op=get kind=zero-token", k, "token 0");
  if (t > kLimit) viol("C15 level=owner op=get kind=token-above-limit", k, std::to_string(t));
  if (r.m.live.count(t)) viol("C15 level=owner op=get kind=duplicate-token", k, "token " + std::to_string(t) + " is still owned by another live owner");
  auto tp = r.own[i]->to_tainted();
  auto addr = reinterpret_cast<uintptr_t>(tp.UNSAFE_unverified());
  if (addr != r.sb.get_sandbox_impl()->base + t) viol("C15 level=owner op=get kind=tainted-form-mismatch", k, "to_tainted does not designate base+token");
  r.m.st[i] = 2;
  r.m.tok[i] = t;
  r.m.obj[i] = obj;
  r.m.live[t] = obj;
  r.m.ever.insert(t);
}

static void model_release(OwnerModel& m, int i)
{
  if (m.st[i] == 2) m.live.erase(m.tok[i]);
}

// apply op; returns false when the history ends (abort)
static bool owner_apply(OwnerRun& r, const Op& op)
{
  std::string k = "owner:" + r.hist + " " + opstr(op);
  auto& m = r.m;
  n_trans++;
  switch (op.kind) {
    case 'g': { // a_i = sb.get_app_pointer(&obj_j)  (move-assign of a fresh registration onto absent/empty/live owner)
      bool full = m.live.size() >= kLimit;
      if (!r.own[op.i]) {
        r.own[op.i].emplace();
        m.st[op.i] = 1;
      }
      auto o = attempt([&] { *r.own[op.i] = r.sb.get_app_pointer(&g_objs[op.j]); });
      if (full) {
        n_nontriv++;
        if (o != ABORT) viol("C15 level=owner op=get kind=no-abort-when-exhausted", k, "all 127 tokens in use");
        return false;
      }
      if (o != RET) {
        viol("C15 level=owner op=get kind=spurious-abort", k, "tokens are free");
        return false;
      }
      model_release(m, op.i); // overwriting a live owner releases its token
      m.st[op.i] = 1;
      owner_new_token(r, op.i, op.j, k);
      break;
    }
    case 'e': { // construct owner in place from a fresh registration (only if absent)
      if (r.own[op.i]) return true; // not applicable; same state
      bool full = m.live.size() >= kLimit;
      auto o = attempt([&] { r.own[op.i].emplace(r.sb.get_app_pointer(&g_objs[op.j])); });
      if (full) {
        if (o != ABORT) viol("C15 level=owner op=get kind=no-abort-when-exhausted", k, "all 127 tokens in use");
        return false;
      }
      if (o != RET) {
        viol("C15 level=owner op=get kind=spurious-abort", k, "tokens are free");
        return false;
      }
      owner_new_token(r, op.i, op.j, k);
      break;
    }
    case 'u':
      if (!r.own[op.i]) return true;
      if (attempt([&] { r.own[op.i]->unregister(); }) != RET) {
        viol("C15 level=owner op=unregister kind=abort", k, "unregister aborted");
        return false;
      }
      model_release(m, op.i);
      m.st[op.i] = 1;
      break;
    case 'd':
      if (!r.own[op.i]) return true;
      if (attempt([&] { r.own[op.i].reset(); }) != RET) {
        viol("C15 level=owner op=destroy kind=abort", k, "destructor aborted");
        return false;
      }
      model_release(m, op.i);
      m.st[op.i] = 0;
      break;
    case 'm': { // a_i = std::move(a_j)
      if (op.i == op.j || !r.own[op.i] || !r.own[op.j]) return true;
      if (attempt([&] { *r.own[op.i] = std::move(*r.own[op.j]); }) != RET) {
        viol("C15 level=owner op=move-assign kind=abort", k, "move assignment aborted");
        return false;
      }
      model_release(m, op.i);
      m.st[op.i] = m.st[op.j];
      m.tok[op.i] = m.tok[op.j];
      m.obj[op.i] = m.obj[op.j];
      m.st[op.j] = 1;
      break;
    }
    case 'c': { // construct a_i from std::move(a_j) (a_i absent)
      if (op.i == op.j || r.own[op.i] || !r.own[op.j]) return true;
      if (attempt([&] { r.own[op.i].emplace(std::move(*r.own[op.j])); }) != RET) {
        viol("C15 level=owner op=move-construct kind=abort", k, "move construction aborted");
        return false;
      }
      m.st[op.i] = m.st[op.j];
      m.tok[op.i] = m.tok[op.j];
      m.obj[op.i] = m.obj[op.j];
      m.st[op.j] = 1;
      break;
    }
    case 'R': { // destroy the sandbox and create it again while owners are alive: a token stays its owner's until the owner releases it
      auto o = attempt([&] {
        r.sb.destroy_sandbox();
        r.sb.create_sandbox(0);
      });
      if (o != RET) {
        viol("C15 level=owner op=recreate kind=abort", k, "destroy_sandbox / create_sandbox aborted");
        return false;
      }
      m.recreated = 1;
      break;
    }
    case 's': { // store the token into sandbox memory, read it back, resolve it
      if (!r.own[op.i] || m.st[op.i] != 2) return true;
      auto pp = r.sb.malloc_in_sandbox<int*>();
      if (!pp) return true;
      int* got = nullptr;
      uint8_t cell = 0;
      auto o = attempt([&] {
        *pp = r.own[op.i]->to_tainted();
        cell = *reinterpret_cast<uint8_t*>(pp.UNSAFE_unverified());
        rlbox::tainted<int*, SB> back = *pp;
        got = r.sb.lookup_app_ptr(back);
      });
      if (o != RET) viol("C15 level=owner op=store-load kind=abort", k, "store/load/lookup of a live token aborted");
      else if (cell != m.tok[op.i]) viol("C15 level=owner op=store-load kind=cell-not-token", k, "guest cell holds " + std::to_string(cell));
      else if (got != &g_objs[m.obj[op.i]]) viol("C15 level=owner op=store-load kind=wrong-pointer", k, "");
      break;
    }
  }
  r.hist += " " + opstr(op);
  owner_check_state(r, k);
  return true;
}

static std::string owner_key(OwnerRun& r)
{
  std::string k;
  for (int i = 0; i < 3; i++) k += std::to_string(r.m.st[i]) + ":" + std::to_string(r.m.st[i] == 2 ? r.m.tok[i] : 0) + ":" + std::to_string(r.m.st[i] == 2 ? r.m.obj[i] : -1) + ";";
  // implementation-side: table contents and cursor (private, read-only)
  k += "|c=" + std::to_string((unsigned)r.sb.app_ptr_map.counter) + "|";
  for (auto& kv : r.sb.app_ptr_map.pointer_map) k += std::to_string((unsigned)kv.first) + ",";
  k += "|R" + std::to_string(r.m.recreated);
  {
    // the operation applied last (see C13: state a change adds to the library is not among the fields this key reads)
    auto pos = r.hist.rfind(' ');
    k += "|last=" + (pos == std::string::npos ? std::string() : r.hist.substr(pos + 1));
  }
  k += "|dead=";
  for (auto t : r.m.ever)
    if (!r.m.live.count(t)) k += std::to_string(t) + ",";
  return k;
}

static std::vector<Op> owner_alphabet()
{
  std::vector<Op> a;
  a.push_back({ 'R', 0, 0 });
  for (int i = 0; i < 3; i++) {
    for (int j = 0; j < 2; j++) a.push_back({ 'g', i, j });
    a.push_back({ 'e', i, 2 });
    a.push_back({ 'u', i, 0 });
    a.push_back({ 'd', i, 0 });
    a.push_back({ 's', i, 0 });
    for (int j = 0; j < 3; j++)
      if (i != j) {
        a.push_back({ 'm', i, j });
        a.push_back({ 'c', i, j });
      }
  }
  return a;
}

// replays `hist` on a fresh sandbox seeded with `seed` filler registrations; returns nullptr-state if aborted
static bool owner_replay(OwnerRun& r, int seed, const std::vector<Op>& hist)
{
  r.sb.create_sandbox(0);
  r.fillers.reserve(128);
  for (int i = 0; i < seed; i++) {
    r.fillers.push_back(r.sb.get_app_pointer(&g_fill_obj));
    uint64_t t = (uint64_t)r.fillers.back().UNSAFE_sandboxed(r.sb);
    r.m.live[t] = -2;
    r.m.ever.insert(t);
  }
  r.hist = "seed" + std::to_string(seed);
  for (auto& op : hist)
    if (!owner_apply(r, op)) return false;
  return true;
}
static void owner_teardown(OwnerRun& r)
{
  try {
    for (auto& o : r.own) o.reset();
    r.fillers.clear();
  } catch (...) {
  }
  try {
    r.sb.destroy_sandbox();
  } catch (...) {
  }
}

static void owner_bfs(int seed, int maxdepth, uint64_t& caseidx)
{
  auto alpha = owner_alphabet();
  std::deque<std::vector<Op>> frontier;
  std::unordered_set<std::string> seen;
  frontier.push_back({});
  {
    OwnerRun r;
    owner_replay(r, seed, {});
    seen.insert(owner_key(r));
    owner_teardown(r);
  }
  long long local_states = 0;
  while (!frontier.empty()) {
    auto h = std::move(frontier.front());
    frontier.pop_front();
    local_states++;
    n_states++;
    if ((int)h.size() >= maxdepth) continue;
    if (expired()) return;
    for (auto& op : alpha) {
      auto h2 = h;
      h2.push_back(op);
      OwnerRun r;
      bool ok = owner_replay(r, seed, h2);
      if (ok) {
        auto k = owner_key(r);
        if (seen.insert(k).second) frontier.push_back(h2);
      }
      owner_teardown(r);
    }
  }
  sample("{\"level\":\"owner\",\"seed_fillers\":" + std::to_string(seed) + ",\"depth\":" + std::to_string(maxdepth) + ",\"states\":" + std::to_string(local_states) + "}", 50);
}


// ---- owners of TWO sandbox objects -------------------------------------------------------------------------------
// Three owners, each holding a registration of sandbox object 0 or 1 (or none). Operations: G s i (own[i] = sb[s].get_app_pointer),
// M i j (own[i] = std::move(own[j]), also across the two objects), U i (unregister), X i (destroy the owner object and make a new empty one).
// After every operation, in each of the two tables: every token ever issued there resolves to its pointer iff a live owner holds it
// there, dead ones abort; owners report their own token / emptiness. A history ends at the first abort.
struct TwoRun
{
  sbx_t sb[2];
  std::optional<AP> own[3];
  int st[3] = { 1, 1, 1 };  // 1 empty, 2 live
  int of[3] = { -1, -1, -1 }; // sandbox object of the registration
  uint64_t tok[3] = { 0, 0, 0 };
  int obj[3] = { -1, -1, -1 }; // which application object the registration designates
  std::map<uint64_t, int> live[2]; // token -> application object index
  std::set<uint64_t> ever[2];
  std::string hist;
  bool crashed = false;
};
static int g_objs2[3];
static void two_check(TwoRun& r, const std::string& k)
{
  for (int s = 0; s < 2; s++)
    for (uint64_t t : r.ever[s]) {
      auto tp = rlbox::tainted<int*, SB>::internal_factory(reinterpret_cast<int*>(r.sb[s].get_sandbox_impl()->base + t));
      int* got = nullptr;
      auto o = attempt([&] { got = r.sb[s].lookup_app_ptr(tp); });
      n_eval++;
      auto it = r.live[s].find(t);
      std::string d = "sandbox object " + std::to_string(s) + " token " + std::to_string(t);
      if (it != r.live[s].end()) {
        if (o != RET) viol("C15 level=two-sandboxes op=lookup kind=live-token-aborts", k, d + ": a live owner holds it, the token no longer resolves");
        else if (got != &g_objs2[it->second]) viol("C15 level=two-sandboxes op=lookup kind=wrong-pointer", k, d);
      } else if (o != ABORT) {
        viol("C15 level=two-sandboxes op=lookup kind=released-token-still-resolves", k, d + " belongs to no live owner but lookup_app_ptr still returns a pointer");
      }
    }
  for (int i = 0; i < 3; i++) {
    bool un = r.own[i]->is_unregistered();
    if (un != (r.st[i] != 2)) viol("C15 level=two-sandboxes op=is_unregistered kind=mismatch", k, "owner " + std::to_string(i));
    if (r.st[i] == 2 && !un) {
      uint64_t t = (uint64_t)r.own[i]->UNSAFE_sandboxed(r.sb[r.of[i]]);
      if (t != r.tok[i]) viol("C15 level=two-sandboxes op=token kind=owner-token-changed", k, "owner " + std::to_string(i));
    }
  }
}
static void two_release(TwoRun& r, int i)
{
  if (r.st[i] == 2) r.live[r.of[i]].erase(r.tok[i]);
  r.st[i] = 1;
}
static bool two_apply(TwoRun& r, const Op& op)
{
  std::string k = "two:" + r.hist + " " + opstr(op);
  n_trans++;
  long long before = g_nviol;
  switch (op.kind) {
    case 'G': { // own[j] = sb[i].get_app_pointer(&obj_j)
      int s = op.i, i = op.j;
      auto o = attempt([&] { *r.own[i] = r.sb[s].get_app_pointer(&g_objs2[i]); });
      if (o != RET) { viol("C15 level=two-sandboxes op=get kind=spurious-abort", k, "tokens are free"); return false; }
      two_release(r, i);
      uint64_t t = (uint64_t)r.own[i]->UNSAFE_sandboxed(r.sb[s]);
      if (t == 0 || t > kLimit) viol("C15 level=two-sandboxes op=get kind=token-out-of-range", k, std::to_string(t));
      if (r.live[s].count(t)) viol("C15 level=two-sandboxes op=get kind=duplicate-token", k, "token " + std::to_string(t) + " of sandbox object " + std::to_string(s) + " is still owned by a live owner");
      r.st[i] = 2; r.of[i] = s; r.tok[i] = t; r.obj[i] = i; r.live[s][t] = i; r.ever[s].insert(t);
      break;
    }
    case 'M': { // own[i] = std::move(own[j])
      if (op.i == op.j) return true;
      if (attempt([&] { *r.own[op.i] = std::move(*r.own[op.j]); }) != RET) { viol("C15 level=two-sandboxes op=move-assign kind=abort", k, "move assignment aborted"); return false; }
      two_release(r, op.i);
      if (r.st[op.j] == 2) {
        r.st[op.i] = 2; r.of[op.i] = r.of[op.j]; r.tok[op.i] = r.tok[op.j]; r.obj[op.i] = r.obj[op.j];
      }
      r.st[op.j] = 1;
      break;
    }
    case 'U':
      if (attempt([&] { r.own[op.i]->unregister(); }) != RET) { viol("C15 level=two-sandboxes op=unregister kind=abort", k, "unregister aborted"); return false; }
      two_release(r, op.i);
      break;
    case 'X':
      if (attempt([&] { r.own[op.i].reset(); }) != RET) { viol("C15 level=two-sandboxes op=destroy-owner kind=abort", k, "destroying an owner aborted"); return false; }
      two_release(r, op.i);
      r.own[op.i].emplace();
      break;
  }
  r.hist += (r.hist.empty() ? "" : " ") + opstr(op);
  two_check(r, k);
  return g_nviol == before;
}
// the registered pointer follows the registration: owner index in live[] is only used to find the pointer, so keep a pointer id per registration
static bool two_replay(TwoRun& r, const std::vector<Op>& h)
{
  r.sb[0].create_sandbox(0);
  r.sb[1].create_sandbox(1);
  for (int i = 0; i < 3; i++) r.own[i].emplace();
  for (auto& op : h)
    if (!two_apply(r, op)) return false;
  return true;
}
static void two_teardown(TwoRun& r)
{
  for (int i = 0; i < 3; i++) {
    try { r.own[i].reset(); } catch (...) {}
  }
  for (int s = 0; s < 2; s++) {
    try { r.sb[s].destroy_sandbox(); } catch (...) {}
  }
}
static std::string two_key(TwoRun& r)
{
  std::string k;
  for (int i = 0; i < 3; i++) k += std::to_string(r.st[i]) + ":" + std::to_string(r.of[i] * (r.st[i] == 2)) + ":" + std::to_string(r.st[i] == 2 ? r.tok[i] : 0) + ",";
  for (int s = 0; s < 2; s++) {
    k += "|";
    for (uint64_t t : r.ever[s]) k += std::to_string(t) + (r.live[s].count(t) ? "L" : "d");
    // the table's own cursor is part of the state (it decides the next token)
    k += "c" + std::to_string((uint64_t)r.sb[s].app_ptr_map.counter);
  }
  return k;
}
static void two_bfs(int maxdepth)
{
  std::vector<Op> alpha;
  for (int s = 0; s < 2; s++) for (int i = 0; i < 3; i++) alpha.push_back({ 'G', s, i });
  for (int i = 0; i < 3; i++) for (int j = 0; j < 3; j++) if (i != j) alpha.push_back({ 'M', i, j });
  for (int i = 0; i < 3; i++) alpha.push_back({ 'U', i, 0 });
  for (int i = 0; i < 3; i++) alpha.push_back({ 'X', i, 0 });
  std::deque<std::vector<Op>> frontier;
  std::unordered_set<std::string> seen;
  frontier.push_back({});
  seen.insert("init");
  long long local = 0;
  while (!frontier.empty()) {
    auto h = std::move(frontier.front());
    frontier.pop_front();
    local++;
    n_states++;
    if ((int)h.size() >= maxdepth) continue;
    if (expired()) return;
    for (auto& op : alpha) {
      auto h2 = h;
      h2.push_back(op);
      TwoRun r;
      bool ok = two_replay(r, h2);
      if (ok) {
        auto k = two_key(r);
        if (seen.insert(k).second) frontier.push_back(h2);
      }
      two_teardown(r);
    }
  }
  sample("{\"level\":\"two-sandboxes\",\"depth\":" + std::to_string(maxdepth) + ",\"states\":" + std::to_string(local) + "}", 50);
}

static std::vector<Op> parse_hist(const std::string& s, int& seed)
{
  std::vector<Op> h;
  for (auto& w : split(s, ' ')) {
    if (w.rfind("owner:seed", 0) == 0) seed = atoi(w.c_str() + 10);
    else if (w.rfind("seed", 0) == 0) seed = atoi(w.c_str() + 4);
    else if (w.size() == 3) h.push_back({ w[0], w[1] - '0', w[2] - '0' });
  }
  return h;
}

int main(int argc, char** argv)
{
  parse(argc, argv);
  g_thorough = has_flag("--thorough");
  std::string what = opt("--what", "all");
  if (g_args.replay) {
    std::string rp = g_args.replay;
    if (rp.rfind("two:", 0) == 0) {
      std::vector<Op> h;
      for (auto& w : split(rp.substr(4), ' '))
        if (w.size() == 3) h.push_back({ w[0], w[1] - '0', w[2] - '0' });
      TwoRun r;
      two_replay(r, h);
      two_teardown(r);
    } else if (rp.rfind("owner:", 0) == 0) {
      int seed = 0;
      auto h = parse_hist(rp, seed);
      OwnerRun r;
      owner_replay(r, seed, h);
      owner_teardown(r);
    } else {
      // table-level: re-run the family the case came from (deterministic, cheap)
      g_args.parts = 1;
      unsigned L = 0;
      auto pos = rp.find("L=");
      if (pos != std::string::npos) L = atoi(rp.c_str() + pos + 2);
      if (rp.rfind("T8 ", 0) == 0) table_full_space(L);
      else if (rp.rfind("H8", 0) == 0) { std::vector<uint64_t> cs; for (uint64_t c = 1; c <= L; c++) cs.push_back(c); table_holes<uint8_t>(L, cs, true, "H8"); }
      else { table_script<uint8_t>(254, "S8", 6); table_script<uint16_t>(65534, "S16", 3); table_script<uint32_t>(40, "S32", 8); table_script<uint64_t>(33, "S64", 8); }
    }
    stat("evaluations", n_eval + n_trans);
    finish();
    return 0;
  }
  if (what == "all" || what == "table") {
    unsigned maxL = g_thorough ? 15 : 12;
    for (unsigned L = 1; L <= maxL; L++)
      if (mine(L)) table_full_space(L);
    std::vector<uint64_t> Ls = { 13, 14, 15, 16, 31, 32, 33, 63, 64, 65, 127, 128, 129, 253, 254 };
    for (uint64_t L : Ls) {
      std::vector<uint64_t> cs;
      if (g_thorough && L <= 65) {
        for (uint64_t c = 1; c <= L; c++) cs.push_back(c);
      } else {
        for (uint64_t c : { (uint64_t)1, (uint64_t)2, L / 2, L - 1, L }) cs.push_back(c);
        if (g_thorough)
          for (uint64_t c = 3; c < L - 1; c += 16) cs.push_back(c);
      }
      table_holes<uint8_t>(L, cs, g_thorough || L <= 129, "H8");
    }
    if (g_args.part == 0) {
      table_script<uint8_t>(254, "S8", 6);
      table_script<uint16_t>(65534, "S16", 3);
      table_script<uint32_t>(40, "S32", 8);
      table_script<uint64_t>(33, "S64", 8);
      table_holes<uint32_t>(20, { 1, 2, 10, 19, 20 }, true, "H32");
      table_holes<uint64_t>(20, { 1, 2, 10, 19, 20 }, true, "H64");
    }
  }
  if (what == "all" || what == "owner") {
    uint64_t ci = 0;
    int seeds[] = { 0, 124, 125, 126, 127 };
    int depth = g_thorough ? 5 : 4;
    for (int si = 0; si < 5; si++)
      if (mine(100 + si)) owner_bfs(seeds[si], seeds[si] == 0 ? depth : depth, ci);
    if (mine(105)) two_bfs(g_thorough ? 6 : 5);
  }
  stat("states", n_states);
  stat("transitions", n_trans);
  stat("traces", n_trans);
  stat("evaluations", n_eval + n_trans);
  stat("nontrivial", n_nontriv);
  finish(expired());
  return 0;
}
