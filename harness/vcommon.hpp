// Common harness support: argument parsing, partitioning, line protocol, boundary lattices,
// outcome capture. Header-only, no dependency on RLBox.
#pragma once
#include <csignal>
#include <cstring>
#include <algorithm>
#include <chrono>
#include <cstdint>
#include <cstdio>
#include <cstdlib>
#include <cstring>
#include <limits>
#include <map>
#include <new>
#include <set>
#include <stdexcept>
#include <string>
#include <type_traits>
#include <vector>

namespace vc {

using i128 = __int128;
using u128 = unsigned __int128;

struct Args
{
  int part = 0, parts = 1;
  long seed = 0;
  double budget = 1e9;
  const char* replay = nullptr;
  std::vector<std::string> rest;
};
inline Args g_args;
inline std::chrono::steady_clock::time_point g_t0;

inline void parse(int argc, char** argv)
{
  g_t0 = std::chrono::steady_clock::now();
  for (int i = 1; i < argc; i++) {
    std::string a = argv[i];
    if (a == "--part" && i + 1 < argc) {
      sscanf(argv[++i], "%d/%d", &g_args.part, &g_args.parts);
    } else if (a == "--seed" && i + 1 < argc) {
      g_args.seed = atol(argv[++i]);
    } else if (a == "--budget" && i + 1 < argc) {
      g_args.budget = atof(argv[++i]);
    } else if (a == "--replay" && i + 1 < argc) {
      g_args.replay = argv[++i];
    } else {
      g_args.rest.push_back(a);
    }
  }
  setvbuf(stdout, nullptr, _IOFBF, 1 << 16);
}
inline bool has_flag(const char* f)
{
  for (auto& s : g_args.rest)
    if (s == f) return true;
  return false;
}
inline std::string opt(const char* f, const char* dflt = "")
{
  for (size_t i = 0; i + 1 < g_args.rest.size(); i++)
    if (g_args.rest[i] == f) return g_args.rest[i + 1];
  return dflt;
}
inline double elapsed()
{
  return std::chrono::duration<double>(std::chrono::steady_clock::now() - g_t0).count();
}
inline bool expired() { return elapsed() > g_args.budget; }
// deterministic partition of an index space
inline bool mine(uint64_t idx)
{
  return g_args.parts <= 1 || (int)((idx + (uint64_t)g_args.seed) % (uint64_t)g_args.parts) == g_args.part;
}

inline std::string jesc(const std::string& s)
{
  std::string o;
  for (unsigned char c : s) {
    if (c == '"' || c == '\\') {
      o += '\\';
      o += (char)c;
    } else if (c < 0x20) {
      char b[8];
      snprintf(b, sizeof b, "\\u%04x", c);
      o += b;
    } else
      o += (char)c;
  }
  return o;
}

inline std::map<std::string, long long> g_stat;
inline std::map<std::string, std::set<std::string>> g_sets;
inline long long g_nviol = 0, g_nsample = 0;
inline void stat(const char* k, long long n = 1) { g_stat[k] += n; }
inline void setadd(const char* k, const std::string& v)
{
  auto& s = g_sets[k];
  if (s.size() < 100000) s.insert(v);
}
inline void sample(const std::string& json_obj, long long max = 6)
{
  if (g_nsample++ < max) printf("#SAMPLE %s\n", json_obj.c_str());
}
inline void viol(const std::string& sig, const std::string& kase, const std::string& detail)
{
  // at most a few reports per signature per partition
  static std::map<std::string, int> per;
  g_nviol++;
  if (per[sig]++ < 3)
    printf("#VIOL {\"sig\":\"%s\",\"case\":\"%s\",\"detail\":\"%s\"}\n", jesc(sig).c_str(), jesc(kase).c_str(),
           jesc(detail).c_str());
  fflush(stdout);
}
// ---- crash of the code under test = violation of the case that was running ---------------------------------
// A harness that names the case it is about to run (crash_case) gets a #VIOL line with kind=crash for it when the
// process is killed by SIGSEGV / SIGBUS / SIGILL / SIGFPE / SIGABRT inside that case (a jump through an empty entry
// point, std::terminate, ...); the driver replays the case alone, which must die the same way. Without a named case
// the signal keeps its default meaning (a harness error).
inline char g_cc_sig[1024], g_cc_case[8192];
inline void crash_case(const std::string& sig, const std::string& kase)
{
  snprintf(g_cc_sig, sizeof g_cc_sig, "%s", jesc(sig).c_str());
  snprintf(g_cc_case, sizeof g_cc_case, "%s", jesc(kase).c_str());
}
inline void crash_clear() { g_cc_sig[0] = 0; }
inline void crash_reporter(int s)
{
  if (g_cc_sig[0]) {
    printf("#VIOL {\"sig\":\"%s kind=crash\",\"case\":\"%s\",\"detail\":\"the process was killed by signal %d while this case ran\"}\n", g_cc_sig, g_cc_case, s);
    fflush(stdout);
  }
  signal(s, SIG_DFL);
  raise(s);
}
inline void install_crash_reporter()
{
  for (int s : { SIGSEGV, SIGBUS, SIGILL, SIGFPE, SIGABRT }) {
    struct sigaction sa;
    memset(&sa, 0, sizeof sa);
    sa.sa_handler = crash_reporter;
    sa.sa_flags = SA_NODEFER | SA_RESETHAND;
    sigaction(s, &sa, nullptr);
  }
}
inline void finish(bool capped = false, const char* why = "deadline")
{
  std::string s = "{";
  bool first = true;
  for (auto& kv : g_stat) {
    if (!first) s += ",";
    first = false;
    s += "\"" + jesc(kv.first) + "\":" + std::to_string(kv.second);
  }
  s += "}";
  printf("#STAT %s\n", s.c_str());
  for (auto& kv : g_sets) {
    std::string t = "{\"" + jesc(kv.first) + "\":[";
    bool f = true;
    for (auto& v : kv.second) {
      if (!f) t += ",";
      f = false;
      t += "\"" + jesc(v) + "\"";
    }
    t += "]}";
    printf("#SET %s\n", t.c_str());
  }
  if (capped)
    printf("#CAPPED {\"why\":\"%s\"}\n", why);
  else
    printf("#DONE\n");
  fflush(stdout);
}

// ---- printing of wide integers -------------------------------------------------------------
inline std::string str(i128 v)
{
  if (v == 0) return "0";
  bool neg = v < 0;
  u128 u = neg ? (u128)(-(v + 1)) + 1 : (u128)v;
  std::string s;
  while (u) {
    s += char('0' + (int)(u % 10));
    u /= 10;
  }
  if (neg) s += '-';
  std::reverse(s.begin(), s.end());
  return s;
}
template<class T>
inline std::string istr(T v)
{
  if constexpr (std::is_same_v<T, bool>)
    return v ? "1" : "0";
  else if constexpr (std::is_signed_v<T>)
    return str((i128)v);
  else
    return str((i128)(u128)v);
}
inline i128 parse_i128(const std::string& s)
{
  i128 v = 0;
  size_t i = 0;
  bool neg = false;
  if (i < s.size() && s[i] == '-') {
    neg = true;
    i++;
  }
  for (; i < s.size() && s[i] >= '0' && s[i] <= '9'; i++) v = v * 10 + (s[i] - '0');
  return neg ? -v : v;
}
inline std::vector<std::string> split(const std::string& s, char sep)
{
  std::vector<std::string> out;
  std::string cur;
  for (char c : s) {
    if (c == sep) {
      out.push_back(cur);
      cur.clear();
    } else
      cur += c;
  }
  out.push_back(cur);
  return out;
}

// ---- boundary lattice ----------------------------------------------------------------------
// {0,±1,±2, 2^k, 2^k±1, -(2^k), -(2^k)±1 for k=1..64, every fixed-width type's min/max ±1,
//  values aliasing a small value after truncation} restricted to what T can represent.
inline const std::vector<i128>& lattice128()
{
  static std::vector<i128> L = [] {
    std::set<i128> s;
    for (int d = -3; d <= 3; d++) s.insert(d);
    for (int k = 1; k <= 64; k++) {
      i128 p = (i128)1 << k;
      for (int d = -2; d <= 2; d++) {
        s.insert(p + d);
        s.insert(-p + d);
      }
    }
    // aliasing values: small v plus 2^8, 2^16, 2^32 multiples
    for (int v : { 0, 1, 2, 3, 5, 7 })
      for (int k : { 8, 16, 32, 63 }) {
        s.insert(((i128)1 << k) + v);
        s.insert(((i128)3 << k) + v);
        s.insert(-((i128)1 << k) + v);
      }
    s.insert(0x55AA55AA);
    s.insert((i128)0x0123456789ABCDEFLL);
    s.insert(12345);
    s.insert(-12345);
    s.insert(100);
    s.insert(-100);
    return std::vector<i128>(s.begin(), s.end());
  }();
  return L;
}
template<class T>
inline bool representable(i128 v)
{
  if constexpr (std::is_same_v<T, bool>)
    return v == 0 || v == 1;
  else
    return v >= (i128)std::numeric_limits<T>::min() && v <= (i128)(u128)std::numeric_limits<T>::max();
}
template<class T>
inline std::vector<T> lattice()
{
  std::vector<T> out;
  for (i128 v : lattice128())
    if (representable<T>(v)) out.push_back((T)v);
  return out;
}

// ---- outcomes ------------------------------------------------------------------------------
enum Outcome
{
  RET = 0,
  ABORT = 1,
  ALLOC_FAIL = 2,
  CRASH = 3
};
inline const char* oname(int o)
{
  static const char* n[] = { "RETURN", "ABORT", "ALLOC_FAIL", "CRASH" };
  return n[o & 3];
}
#if defined(__cpp_exceptions)
template<class F>
inline Outcome attempt(F&& f)
{
  try {
    f();
    return RET;
  } catch (const std::runtime_error&) {
    return ABORT;
  } catch (const std::bad_alloc&) {
    return ALLOC_FAIL;
  } catch (const std::length_error&) {
    return ALLOC_FAIL;
  }
}
#endif

template<class T>
inline const char* tname()
{
#define VC_TN(X)                                                                                                 \
  if constexpr (std::is_same_v<T, X>) return #X;
  VC_TN(bool)
  VC_TN(char) VC_TN(signed char) VC_TN(unsigned char) VC_TN(short) VC_TN(unsigned short) VC_TN(int) VC_TN(unsigned)
    VC_TN(long) VC_TN(unsigned long) VC_TN(long long) VC_TN(unsigned long long) VC_TN(char16_t) VC_TN(char32_t)
      VC_TN(wchar_t) VC_TN(float) VC_TN(double)
#undef VC_TN
        return "?";
}

} // namespace vc
