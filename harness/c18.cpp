// C18 — distinct sandboxes can be used from distinct threads without interference.
// Engine S: all schedules of 2-3 threads, each owning one sandbox object of the same backend type, up to
// a preemption bound; scheduling points at every RLBox shared-lock operation and at yields inside backend
// entry points, guest functions and callbacks. Oracle per complete schedule: every thread's observation
// sequence equals the one recorded when its script ran alone; no deadlock; no happens-before race on the
// accesses announced by RLBOX_VERIF_SHARED (the process-wide sandbox list).
#include "sched.hpp"
#if defined(C18_NOOP)
#  define BK_NOOP
#  define GUEST_YIELD() ::vs::yield_point("guest")
#else
#  define BK_MBOX
#  define BK_MODE REGISTRY
#endif
#include "backends.hpp"
#include "vcommon.hpp"
#include <csignal>
#include <sys/wait.h>
#include <unistd.h>
using namespace vc;

extern "C" void rlbox_verif_point(const char*, const volatile void*, std::size_t) {}
extern "C" void rlbox_verif_shared(const volatile void* addr, int is_write)
{
  vs::g_sched.shared_access(vs::g_tid, const_cast<const void*>(addr), is_write != 0);
}

static sbx_t* g_sbx[vs::kMaxT];
static std::vector<std::string> g_obs[vs::kMaxT];
static int g_nthreads = 2;
static int g_script_len = 2;

static tn<int> cbfn(sbx_t& sb, tn<int> v)
{
  int t = vs::g_tid;
  vs::yield_point("callback-entry");
  // the callback must see its own sandbox, and a nested invocation must run in it
  std::string o = std::string("cb:sandbox=") + (&sb == g_sbx[t] ? "own" : "OTHER");
  int lid = sb.invoke_sandbox_function(lib_id).UNSAFE_unverified();
  o += ",nested-lib_id=" + std::to_string(lid);
  g_obs[t].push_back(o);
  vs::yield_point("callback-exit");
  return v + 1;
}

static void use_sandbox(int t, sbx_t& sb, const char* tag)
{
  auto& obs = g_obs[t];
#ifdef BK_MBOX
  uintptr_t base = sb.get_sandbox_impl()->base;
#else
  uintptr_t base = 0;
#endif
  auto p = sb.malloc_in_sandbox<int>();
  auto pp = sb.malloc_in_sandbox<int*>();
  *pp = p; // example-based translation: goes through the process-wide list (registry mode)
  tn<int*> back = *pp;
  obs.push_back(std::string(tag) + ":ptr-roundtrip=" + (back.UNSAFE_unverified() == p.UNSAFE_unverified() ? "same" : "DIFFERENT") + ",offset=" + std::to_string(reinterpret_cast<uintptr_t>(p.UNSAFE_unverified()) - (base ? base : reinterpret_cast<uintptr_t>(p.UNSAFE_unverified()))));
#ifdef BK_MBOX
  uint16_t cell;
  memcpy(&cell, pp.UNSAFE_unverified(), 2);
  obs.push_back(std::string(tag) + ":cell=" + std::to_string(cell));
#endif
  *p = 1000 + t;
  obs.push_back(std::string(tag) + ":value=" + std::to_string((*p).UNSAFE_unverified()));
  auto cb = sb.register_callback(cbfn);
  int r = sb.invoke_sandbox_function(call_cb_n, cb, 10 * t, 1).UNSAFE_unverified();
  obs.push_back(std::string(tag) + ":invoke=" + std::to_string(r));
  cb.unregister();
  // app-pointer tokens: the table is per sandbox object, so the tokens a thread gets are those of its solo run
  {
    static int app_objs[vs::kMaxT][2];
    auto a1 = sb.get_app_pointer(&app_objs[t][0]);
    auto a2 = sb.get_app_pointer(&app_objs[t][1]);
    int* b1 = sb.lookup_app_ptr(a1.to_tainted());
    int* b2 = sb.lookup_app_ptr(a2.to_tainted());
    obs.push_back(std::string(tag) + ":app-tokens=" + std::to_string((uint64_t)a1.UNSAFE_sandboxed(sb)) + "," + std::to_string((uint64_t)a2.UNSAFE_sandboxed(sb)) +
                  ",lookup=" + (b1 == &app_objs[t][0] && b2 == &app_objs[t][1] ? "own-objects" : "OTHER"));
    a1.unregister();
    a2.unregister();
  }
  sb.free_in_sandbox(pp);
  sb.free_in_sandbox(p);
}

// --pre 1: every thread's sandbox is created before the threads start (in thread order, so the process-wide list is
// [0, 1, 2]); the threads then use and destroy concurrently. Interleavings of "use in the last-created sandbox" with "destroy of
// an earlier one" need one preemption instead of three.
static int g_pre = 0;
static sbx_t* g_pre_sb[vs::kMaxT];
static void script(int t)
{
  sbx_t local;
  sbx_t& sb = g_pre ? *g_pre_sb[t] : local;
  g_sbx[t] = &sb;
  auto& obs = g_obs[t];
  try {
    if (!g_pre) bk_create(sb, t, 1 + (t & 1));
    obs.push_back("created");
    use_sandbox(t, sb, "first");
    sb.destroy_sandbox();
    obs.push_back("destroyed");
    if (g_script_len >= 2) {
      bk_create(sb, t, 1);
      obs.push_back("created-again");
      use_sandbox(t, sb, "second");
      sb.destroy_sandbox();
      obs.push_back("destroyed-again");
    }
  } catch (const std::runtime_error& e) {
    obs.push_back(std::string("ABORT:") + e.what());
  }
  g_sbx[t] = nullptr;
}

struct Exec
{
  std::vector<vs::Point> points;
  std::vector<std::string> obs[vs::kMaxT];
  std::vector<std::string> races;
  bool diverged = false;
  bool deadlock = false;
  int crashed = 0; // signal number
  bool hang = false;
};

static std::string g_cur_sched;
static std::string case_of(const std::string& choices)
{
  return "sched|" + std::to_string(g_nthreads) + "|" + std::to_string(g_script_len + 10 * g_pre) + "|" + choices;
}
static void deadlock_report()
{
  viol(std::string("C18 backend=") + bk_name + " kind=deadlock", case_of(g_cur_sched), "no enabled thread while some have not finished");
  finish(true, "deadlock");
  _exit(0);
}
// a crash (wild jump through another sandbox's callback table, use of a reallocated list buffer, ...) under some
// schedule is a violation of the property, not a harness failure: report the schedule prefix and stop
static void on_fatal(int sig)
{
  static volatile int once = 0;
  if (once++) _exit(0);
  viol(std::string("C18 backend=") + bk_name + " kind=crash-under-interleaving", case_of(g_cur_sched), std::string("signal ") + std::to_string(sig) + " while executing the schedule with this choice prefix (default choices afterwards)");
  finish(true, "crash");
  _exit(0);
}

static Exec run_inproc(const std::vector<int>& prefix, int only_thread = -1)
{
  auto& S = vs::g_sched;
  S.reset(g_nthreads, prefix);
  S.on_deadlock = deadlock_report;
  sbx_t::sandbox_list.clear();
  for (int t = 0; t < vs::kMaxT; t++) g_obs[t].clear();
  if (only_thread >= 0)
    for (int t = 0; t < g_nthreads; t++)
      if (t != only_thread) S.finished[t] = true;
  if (g_pre)
    for (int t = 0; t < g_nthreads; t++) {
      g_pre_sb[t] = new sbx_t; // one execution per forked child: never reused
      bk_create(*g_pre_sb[t], t, 1 + (t & 1));
    }
  S.active = true;
  std::vector<std::thread> ths;
  for (int t = 0; t < g_nthreads; t++) {
    if (only_thread >= 0 && t != only_thread) continue;
    ths.emplace_back([t] {
      vs::g_tid = t;
      vs::g_sched.thread_begin(t);
      script(t);
      vs::g_sched.thread_end(t);
      vs::g_tid = -1;
    });
  }
  {
    std::unique_lock<std::mutex> lk(S.m);
    int first = S.choose(-1, "start");
    S.running = first;
    S.cv.notify_all();
    S.cv.wait(lk, [&] { return S.running == -2; });
  }
  for (auto& th : ths) th.join();
  S.active = false;
  if (g_pre && only_thread >= 0)
    for (int t = 0; t < g_nthreads; t++)
      if (t != only_thread) {
        try {
          g_pre_sb[t]->destroy_sandbox();
        } catch (const std::runtime_error&) {
        }
      }
#ifdef BK_MBOX
  // the registry must never hand a sandbox that is being / has been destroyed to the backend
  if (only_thread < 0 || only_thread == 0) g_obs[0].push_back("end:queries-to-destroyed-sandboxes=" + std::to_string(SB::dead_queries()));
#endif
  Exec x;
  x.points = S.points;
  for (int t = 0; t < g_nthreads; t++) x.obs[t] = g_obs[t];
  x.races = S.races;
  x.diverged = S.diverged;
  return x;
}

// every schedule runs in a forked child: static or thread_local state that a (mutated) tree keeps between calls cannot
// leak from one execution into the next, a replayed schedule starts from exactly the same process state, and a crash or
// a hang under some schedule is observed by the parent as an outcome instead of ending the exploration
static int g_out_fd = -1;
static void wr(const std::string& s)
{
  size_t off = 0;
  while (off < s.size()) {
    ssize_t n = write(g_out_fd, s.data() + off, s.size() - off);
    if (n <= 0) break;
    off += n;
  }
}
static void child_deadlock()
{
  wr("D\n");
  _exit(0);
}
static Exec run(const std::vector<int>& prefix, int only_thread = -1)
{
  int fd[2];
  if (pipe(fd) != 0) { perror("pipe"); _exit(2); }
  fflush(stdout);
  pid_t pid = fork();
  if (pid == 0) {
    close(fd[0]);
    g_out_fd = fd[1];
    signal(SIGSEGV, SIG_DFL);
    signal(SIGABRT, SIG_DFL);
    signal(SIGBUS, SIG_DFL);
    signal(SIGILL, SIG_DFL);
    alarm(20);
    vs::g_sched.on_deadlock = child_deadlock;
    Exec x = run_inproc(prefix, only_thread);
    std::string out;
    for (auto& p : x.points) out += "P " + std::to_string(p.running_enabled) + " " + std::to_string(p.enabled.size()) + " " + std::to_string(p.chosen) + "\n";
    for (int t = 0; t < g_nthreads; t++)
      for (auto& o : x.obs[t]) out += "O " + std::to_string(t) + " " + o + "\n";
    for (auto& r : x.races) out += "R " + r + "\n";
    if (x.diverged) out += "V\n";
    out += "E\n";
    wr(out);
    _exit(0);
  }
  close(fd[1]);
  std::string buf;
  char tmp[65536];
  ssize_t n;
  while ((n = read(fd[0], tmp, sizeof tmp)) > 0) buf.append(tmp, n);
  close(fd[0]);
  int st = 0;
  waitpid(pid, &st, 0);
  Exec x;
  bool ended = false;
  for (auto& line : split(buf, '\n')) {
    if (line.empty()) continue;
    if (line[0] == 'P') {
      vs::Point p;
      int re, ne, ch;
      sscanf(line.c_str() + 2, "%d %d %d", &re, &ne, &ch);
      p.running_enabled = re;
      p.enabled.assign(ne, 0);
      p.chosen = ch;
      x.points.push_back(p);
    } else if (line[0] == 'O') {
      int t = line[2] - '0';
      x.obs[t].push_back(line.substr(4));
    } else if (line[0] == 'R') x.races.push_back(line.substr(2));
    else if (line[0] == 'V') x.diverged = true;
    else if (line[0] == 'D') x.deadlock = true;
    else if (line[0] == 'E') ended = true;
  }
  if (WIFSIGNALED(st)) {
    if (WTERMSIG(st) == SIGALRM) x.hang = true;
    else x.crashed = WTERMSIG(st);
  } else if (!ended && !x.deadlock) x.crashed = -1;
  return x;
}

static long long n_sched = 0, n_points = 0, n_preempt_sched = 0;
static std::vector<std::string> g_solo[vs::kMaxT];
static std::set<std::string> g_outcomes;
static int g_bound = 2;
static uint64_t g_top = 0;

static std::string sched_str(const std::vector<vs::Point>& ps)
{
  std::string s;
  for (auto& p : ps) s += std::to_string(p.chosen) + ",";
  return s;
}
static std::string join(const std::vector<std::string>& v)
{
  std::string s;
  for (auto& x : v) s += x + ";";
  return s;
}

static std::string kase_prefix() { return case_of(g_cur_sched); }
static void check(const Exec& x)
{
  n_sched++;
  n_points += x.points.size();
  std::string ss = sched_str(x.points);
  std::string kase = case_of(ss);
  std::string out;
  for (int t = 0; t < g_nthreads; t++) {
    out += join(x.obs[t]) + "|";
    if (x.crashed || x.hang || x.deadlock) continue;
    if (x.obs[t] != g_solo[t]) {
      // first difference
      size_t i = 0;
      while (i < x.obs[t].size() && i < g_solo[t].size() && x.obs[t][i] == g_solo[t][i]) i++;
      std::string got = i < x.obs[t].size() ? x.obs[t][i] : "(missing)", want = i < g_solo[t].size() ? g_solo[t][i] : "(nothing)";
      std::string kind = got.rfind("cb:", 0) == 0 ? "callback-saw-other-sandbox" : got.rfind("ABORT", 0) == 0 ? "abort-under-interleaving" : "observation-differs";
      viol(std::string("C18 backend=") + bk_name + " kind=" + kind, kase, "thread " + std::to_string(t) + " observed '" + got + "' where its solo run observed '" + want + "'");
    }
  }
  g_outcomes.insert(out);
  if ((n_sched % 1009) == 5) sample("{\"threads\":" + std::to_string(g_nthreads) + ",\"schedule_choices\":\"" + ss.substr(0, 400) + "\",\"scheduling_points\":" + std::to_string(x.points.size()) + ",\"races\":" + std::to_string(x.races.size()) + "}", 4);
  if (x.deadlock) viol(std::string("C18 backend=") + bk_name + " kind=deadlock", kase_prefix(), "no enabled thread while some have not finished");
  if (x.crashed) viol(std::string("C18 backend=") + bk_name + " kind=crash-under-interleaving", kase_prefix(), "the process died (signal " + std::to_string(x.crashed) + ") under the schedule with this choice prefix");
  if (x.hang) viol(std::string("C18 backend=") + bk_name + " kind=hang-under-interleaving", kase_prefix(), "no progress for 20 s under the schedule with this choice prefix");
  if (!x.races.empty()) viol(std::string("C18 backend=") + bk_name + " kind=race-on-shared-list", kase, "happens-before race on the process-wide sandbox list: " + x.races[0]);
  if (x.diverged) viol(std::string("C18 backend=") + bk_name + " kind=harness-replay-diverged", kase, "a replayed schedule prefix did not fit the execution (nondeterminism not owned by the scheduler)");
}

static void explore(const std::vector<int>& prefix, int depth)
{
  if (expired()) return;
  g_cur_sched = "";
  for (int c : prefix) g_cur_sched += std::to_string(c) + ",";
  Exec x = run(prefix);
  check(x);
  std::vector<int> choices;
  for (auto& p : x.points) choices.push_back(p.chosen);
  int cost = 0;
  for (size_t i = 0; i < x.points.size(); i++) {
    auto& p = x.points[i];
    if (i >= prefix.size()) {
      for (int alt = 1; alt < (int)p.enabled.size(); alt++) {
        int c = cost + (p.running_enabled ? 1 : 0);
        if (c > g_bound) continue;
        // the top-level alternatives are the partition
        if (depth == 0 && !mine(g_top++)) continue;
        std::vector<int> np(choices.begin(), choices.begin() + i);
        np.push_back(alt);
        explore(np, depth + 1);
      }
    }
    if (p.chosen > 0 && p.running_enabled) cost++;
  }
}

int main(int argc, char** argv)
{
  parse(argc, argv);
  bool thorough = has_flag("--thorough");
  g_nthreads = atoi(opt("--threads", "2").c_str());
  g_bound = atoi(opt("--bound", thorough ? "3" : "2").c_str());
  g_script_len = atoi(opt("--len", "2").c_str());
  g_pre = atoi(opt("--pre", "0").c_str());

  // solo runs: the reference observations
  for (int t = 0; t < g_nthreads; t++) {
    Exec x = run({}, t);
    g_solo[t] = x.obs[t];
    Exec y = run({}, t);
    if (y.obs[t] != x.obs[t]) {
      viol(std::string("C18 backend=") + bk_name + " kind=harness-nondeterministic", "solo|" + std::to_string(t), "two solo runs of the same script differ");
      finish();
      return 0;
    }
  }
  if (g_args.replay) {
    auto f = split(g_args.replay, '|');
    g_nthreads = atoi(f[1].c_str());
    g_script_len = atoi(f[2].c_str()) % 10;
    g_pre = atoi(f[2].c_str()) / 10;
    for (int t = 0; t < g_nthreads; t++) g_solo[t] = run({}, t).obs[t];
    std::vector<int> pfx;
    g_cur_sched = f[3];
    for (auto& c : split(f[3], ','))
      if (!c.empty()) pfx.push_back(atoi(c.c_str()));
    // replay twice: the same schedule must give the same observations
    Exec a = run(pfx), b = run(pfx);
    bool same = true;
    for (int t = 0; t < g_nthreads; t++)
      if (a.obs[t] != b.obs[t]) same = false;
    if (!same) viol(std::string("C18 backend=") + bk_name + " kind=harness-nondeterministic", g_args.replay, "replaying one schedule twice gave different observations");
    check(a);
    stat("evaluations", n_sched);
    finish();
    return 0;
  }
  if (g_args.part == 0) {
    // part 0 also runs the default schedule; other parts only their share of the top-level alternatives
  }
  explore({}, 0);
  stat("schedules", n_sched);
  stat("states", n_points);
  stat("transitions", n_points);
  stat("traces", n_sched);
  stat("evaluations", n_sched);
  stat("nontrivial", n_sched > 0 ? n_sched - 1 : 0);
  for (auto& o : g_outcomes) setadd("distinct_outcomes", std::to_string(std::hash<std::string>{}(o)));
  sample(std::string("{\"backend\":\"") + bk_name + "\",\"threads\":" + std::to_string(g_nthreads) + ",\"preemption_bound\":" + std::to_string(g_bound) + ",\"schedule\":\"list of choices, 0 = keep running the current thread\",\"solo_observations_thread0\":\"" + jesc(join(g_solo[0])).substr(0, 300) + "\"}", 1);
  finish(expired());
  return 0;
}
