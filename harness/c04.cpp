// C04 — pointer representation conversion is faithful, null-preserving and per-sandbox.
// Engine X: every offset of a 64 KiB region (and null) through both translation paths and every
// pointer-carrying position, guest-side bytes inspected directly.
// Engine H: all create/destroy histories over three instances up to a depth bound (all 16 ordered
// live-lists are reached, also through re-creation); in every state every live instance translates
// data and function pointers relative to itself.
#define RLBOX_USE_EXCEPTIONS
#define RLBOX_USE_STATIC_CALLS() mbox_lookup_symbol
#include "rlbox.hpp"
#include "mbox.hpp"
#include "vcommon.hpp"
#include "vstruct.hpp"
#include <optional>
rlbox_load_structs_from_library(vlib);

using namespace vc;
#ifndef C04_MODE
#  define C04_MODE MASK
#endif
#ifndef C04_PTR
#  define C04_PTR uint16_t
#endif
using PtrT = C04_PTR;
#ifdef C04_LOG
using Cfg = mb::cfg<PtrT, mb::abi_lp32, mb::C04_MODE, 4, false, C04_LOG>;
#else
using Cfg = mb::cfg<PtrT, mb::abi_lp32, mb::C04_MODE, 4>;
#endif
using SB = mb::mbox<Cfg>;
using sbx_t = rlbox::rlbox_sandbox<SB>;
template<class T>
using tn = rlbox::tainted<T, SB>;
using VSG = std::conditional_t<sizeof(PtrT) == 2, VS_lp32_p16, std::conditional_t<sizeof(PtrT) == 4, VS_lp32_p32, VS_lp32_p64>>;
static const uint64_t kSize = SB::kSize;
static const char* kMode = mb::C04_MODE == mb::MASK ? "mask" : "registry";

static long long n_eval = 0, n_nontriv = 0, n_states = 0, n_trans = 0;
static bool g_thorough = false;

// ---- guest code ----------------------------------------------------------------------------------
unsigned long take_ptr(int* p);
int* give_ptr(unsigned long r);
unsigned long cb_roundtrip(int* (*cb)(int*), unsigned long r);
VS give_struct(unsigned long r);
unsigned long take_struct(VS s);
unsigned long take_fn(int (*f)(long));
int (*give_fn(unsigned long r))(long);
static uint32_t guest_take_ptr(PtrT p) { return (uint32_t)p; }
static PtrT guest_give_ptr(uint32_t r) { return (PtrT)r; }
static uint64_t g_guest_cb_ret;
static uint32_t guest_cb_roundtrip(PtrT cb, uint32_t r)
{
  auto f = (PtrT(*)(PtrT))SB::current()->rep_to_fn(cb);
  return (uint32_t)f((PtrT)r);
}
static rlbox::Sbx_vlib_VS<SB> guest_give_struct(uint32_t r)
{
  rlbox::Sbx_vlib_VS<SB> s{};
  s.p = (PtrT)r;
  return s;
}
static uint32_t guest_take_struct(rlbox::Sbx_vlib_VS<SB> s) { return (uint32_t)s.p; }
static uint32_t guest_take_fn(PtrT f) { return (uint32_t)f; }
static PtrT guest_give_fn(uint32_t r) { return (PtrT)r; }
// guest functions used as function-pointer targets
int gf0(long);
int gf1(long);
int gf2(long);
int gf3(long);
static int32_t guest_gf0(int32_t) { return 100; }
static int32_t guest_gf1(int32_t) { return 101; }
static int32_t guest_gf2(int32_t) { return 102; }
static int32_t guest_gf3(int32_t) { return 103; }

static tn<int*> g_cb_arg;
static uintptr_t g_cb_give;
static sbx_t* g_cb_sb;
static tn<int*> cb_ptr(sbx_t& sb, tn<int*> p)
{
  g_cb_arg = p;
  g_cb_sb = &sb;
  tn<int*> r = nullptr;
  if (g_cb_give) r.assign_raw_pointer(sb, reinterpret_cast<int*>(g_cb_give));
  return r;
}

static void bad(const std::string& pos, const char* kind, uint64_t off, const std::string& detail, const std::string& extra = "")
{
  viol("C04 mode=" + std::string(kMode) + " position=" + pos + " kind=" + kind, "pos|" + pos + "|" + (off == ~0ull ? "null" : std::to_string(off)) + extra, detail);
}

// all positions for one offset (~0 = null) on instance `sb` (its callback `cb` registered by caller)
static void positions(sbx_t& sb, rlbox::sandbox_callback<int* (*)(int*), SB>& cb, uint64_t off)
{
  auto* impl = sb.get_sandbox_impl();
  uintptr_t base = impl->base;
  bool isnull = off == ~0ull;
  uintptr_t addr = isnull ? 0 : base + off;
  uint64_t rep = isnull ? 0 : off;
  n_eval++;
  if (isnull || off < 16 || off + 16 >= kSize) n_nontriv++;
  tn<int*> tp = nullptr;
  if (!isnull) tp.assign_raw_pointer(sb, reinterpret_cast<int*>(addr));
  try {
    // (1) with context
    if ((uint64_t)sb.get_sandboxed_pointer<int*>(reinterpret_cast<void*>(addr)) != rep) bad("ctx-to-rep", "wrong-representation", off, "get_sandboxed_pointer");
    if (reinterpret_cast<uintptr_t>(sb.get_unsandboxed_pointer<int*>((PtrT)rep)) != addr) bad("ctx-to-app", "wrong-address", off, "get_unsandboxed_pointer");
    // (2) from an example address (first, middle and last byte of the own region)
    for (uint64_t ex : { (uint64_t)8, kSize / 2 + 3, (uint64_t)SB::kCommitLo - 1 }) {
      const void* example = reinterpret_cast<const void*>(base + ex);
      if ((uint64_t)sbx_t::get_sandboxed_pointer_no_ctx<int*>(reinterpret_cast<void*>(addr), example) != rep) bad("noctx-to-rep", "wrong-representation", off, "example offset " + std::to_string(ex));
      if (reinterpret_cast<uintptr_t>(sbx_t::get_unsandboxed_pointer_no_ctx<int*>((PtrT)rep, example)) != addr) bad("noctx-to-app", "wrong-address", off, "example offset " + std::to_string(ex));
    }
    // (3) invocation argument / result
    {
      auto r = sb.invoke_sandbox_function(take_ptr, tp);
      if ((uint64_t)r.UNSAFE_unverified() != rep) bad("invoke-argument", "wrong-representation", off, "guest received " + std::to_string((uint64_t)r.UNSAFE_unverified()));
      auto o = tp.to_opaque();
      auto r2 = sb.invoke_sandbox_function(take_ptr, o);
      if ((uint64_t)r2.UNSAFE_unverified() != rep) bad("invoke-argument-opaque", "wrong-representation", off, "");
      if (isnull) {
        auto r3 = sb.invoke_sandbox_function(take_ptr, nullptr);
        if (r3.UNSAFE_unverified() != 0) bad("invoke-argument-nullptr", "null-not-zero", off, "");
      }
      auto p = sb.invoke_sandbox_function(give_ptr, (unsigned long)rep);
      if (reinterpret_cast<uintptr_t>(p.UNSAFE_unverified()) != addr) bad("invoke-result", "wrong-address", off, "");
    }
    // (4) callback argument / result
    {
      g_cb_give = addr;
      g_cb_arg = nullptr;
      auto r = sb.invoke_sandbox_function(cb_roundtrip, cb, (unsigned long)rep);
      if (reinterpret_cast<uintptr_t>(g_cb_arg.UNSAFE_unverified()) != addr) bad("callback-argument", "wrong-address", off, "");
      if ((uint64_t)r.UNSAFE_unverified() != rep) bad("callback-result", "wrong-representation", off, "guest received " + std::to_string((uint64_t)r.UNSAFE_unverified()));
      if (g_cb_sb != &sb) bad("callback-sandbox", "wrong-sandbox", off, "");
    }
    // (5) pointer cell store / load
    {
      tn<int**> cell;
      cell.assign_raw_pointer(sb, reinterpret_cast<int**>(base + 0x100));
      memset(reinterpret_cast<void*>(base + 0x100), 0xEE, 8);
      *cell = tp;
      PtrT seen;
      memcpy(&seen, reinterpret_cast<void*>(base + 0x100), sizeof seen);
      if ((uint64_t)seen != rep) bad("cell-store", "wrong-representation", off, "cell holds " + std::to_string((uint64_t)seen));
      if (isnull) {
        memset(reinterpret_cast<void*>(base + 0x100), 0xEE, 8);
        *cell = nullptr;
        memcpy(&seen, reinterpret_cast<void*>(base + 0x100), sizeof seen);
        if (seen != 0) bad("cell-store-nullptr", "null-not-zero", off, "");
      }
      PtrT w = (PtrT)rep;
      memcpy(reinterpret_cast<void*>(base + 0x100), &w, sizeof w);
      tn<int*> back = *cell;
      if (reinterpret_cast<uintptr_t>(back.UNSAFE_unverified()) != addr) bad("cell-load", "wrong-address", off, "");
      if (reinterpret_cast<uintptr_t>(cell->UNSAFE_unverified()) != addr) bad("cell-unsafe-unverified", "wrong-address", off, "");
      // tainted_volatile -> tainted_volatile copy keeps the representation
      tn<int**> cell2;
      cell2.assign_raw_pointer(sb, reinterpret_cast<int**>(base + 0x110));
      *cell2 = *cell;
      memcpy(&seen, reinterpret_cast<void*>(base + 0x110), sizeof seen);
      if ((uint64_t)seen != rep) bad("cell-to-cell", "wrong-representation", off, "");
    }
    // (6) array of pointers
    {
      tn<int* (*)[3]> pa;
      pa.assign_raw_pointer(sb, reinterpret_cast<int* (*)[3]>(base + 0x200));
      tn<int* [3]> arr;
      arr[0] = nullptr;
      arr[1] = tp;
      arr[2] = nullptr;
      memset(reinterpret_cast<void*>(base + 0x200), 0xEE, 16);
      *pa = arr;
      PtrT seen[3];
      memcpy(seen, reinterpret_cast<void*>(base + 0x200), sizeof seen);
      if ((uint64_t)seen[1] != rep || seen[0] != 0 || seen[2] != 0) bad("array-of-pointers-store", "wrong-representation", off, "");
      tn<int* [3]> back = *pa;
      if (reinterpret_cast<uintptr_t>(back[1].UNSAFE_unverified()) != addr || back[0].UNSAFE_unverified() != nullptr) bad("array-of-pointers-load", "wrong-address", off, "");
    }
    // (7) struct field by pointer and by value, by-value argument / result
    {
      tn<VS*> ps;
      ps.assign_raw_pointer(sb, reinterpret_cast<VS*>(base + 0x300));
      memset(reinterpret_cast<void*>(base + 0x300), 0, sizeof(VSG));
      memset(reinterpret_cast<void*>(base + 0x300 + offsetof(VSG, p)), 0xEE, sizeof(PtrT));
      ps->p = tp;
      VSG g;
      memcpy(&g, reinterpret_cast<void*>(base + 0x300), sizeof g);
      if ((uint64_t)g.p != rep) bad("struct-field-store", "wrong-representation", off, "");
      tn<int*> f = ps->p;
      if (reinterpret_cast<uintptr_t>(f.UNSAFE_unverified()) != addr) bad("struct-field-load", "wrong-address", off, "");
      tn<VS> sv = *ps;
      if (reinterpret_cast<uintptr_t>(sv.p.UNSAFE_unverified()) != addr) bad("struct-by-value-load", "wrong-address", off, "");
      memset(reinterpret_cast<void*>(base + 0x300), 0, sizeof(VSG));
      memset(reinterpret_cast<void*>(base + 0x300 + offsetof(VSG, p)), 0xEE, sizeof(PtrT));
      sv.a = 1; sv.c = 2; sv.ll = 3; sv.fn = nullptr;
      sv.arr[0] = 0; sv.arr[1] = 0; sv.arr[2] = 0;
      *ps = sv;
      memcpy(&g, reinterpret_cast<void*>(base + 0x300), sizeof g);
      if ((uint64_t)g.p != rep) bad("struct-by-value-store", "wrong-representation", off, "");
      auto r = sb.invoke_sandbox_function(take_struct, sv);
      if ((uint64_t)r.UNSAFE_unverified() != rep) bad("struct-argument", "wrong-representation", off, "");
      auto rs = sb.invoke_sandbox_function(give_struct, (unsigned long)rep);
      if (reinterpret_cast<uintptr_t>(rs.p.UNSAFE_unverified()) != addr) bad("struct-result", "wrong-address", off, "");
    }
    // (8) free
    {
      impl->freed.clear();
      sb.free_in_sandbox(tp);
      if (impl->freed.size() != 1 || impl->freed[0] != rep) bad("free", "wrong-representation", off, "");
    }
  } catch (const std::runtime_error& e) {
    bad("any", "unexpected-abort", off, std::string("a faithful conversion aborted: ") + e.what());
  }
}

// ---- histories over three instances -----------------------------------------------------------
// A history's replay key names the partition and depth of the enumeration it ran in: the library may keep state the
// harness cannot reset between histories (a function-local or thread-local cache), so "the same case" is the same
// prefix of the same enumeration, not the one history alone.
static int g_hist_depth = 5;
static std::string g_stop_after, g_cur_hist; // replay: stop once this history has run
static std::string hkey(const std::string& hist)
{
  return "hist|" + hist + "|" + std::to_string(g_args.part) + "/" + std::to_string(g_args.parts) + "/" + std::to_string(g_hist_depth);
}
struct World
{
  sbx_t s[3];
  bool live[3] = { false, false, false };
  std::vector<int> order; // model of the live list, in creation order
  std::string hist;
};

// function tables are filled in a different order per instance, so a representation means a
// different function in each of them
static const void* fn_of(int k)
{
  switch (k & 3) {
    case 0: return (const void*)&guest_gf0;
    case 1: return (const void*)&guest_gf1;
    case 2: return (const void*)&guest_gf2;
    default: return (const void*)&guest_gf3;
  }
}

static void world_check(World& w)
{
  n_states++;
  SB::dead_queries() = 0;
  std::vector<uint64_t> offs = { 1, 2, 7, 8, 0x100, 0x7ffe, 0x8000, 0xfffe, 0xffff, kSize - 1, kSize / 2 + 1 };
  for (int i : w.order) {
    auto& sb = w.s[i];
    auto* impl = sb.get_sandbox_impl();
    uintptr_t base = impl->base;
    try {
      for (uint64_t o : offs) {
        if (o >= kSize) continue;
        n_trans++;
        // load: cell in instance i holding offset o
        PtrT rep = (PtrT)o;
        memcpy(reinterpret_cast<void*>(base + 0x100), &rep, sizeof rep);
        tn<int**> cell;
        cell.assign_raw_pointer(sb, reinterpret_cast<int**>(base + 0x100));
        tn<int*> v = *cell;
        auto got = reinterpret_cast<uintptr_t>(v.UNSAFE_unverified());
        if (got != base + o) {
          std::string wh = "elsewhere";
          for (int j : w.order)
            if (j != i && got == w.s[j].get_sandbox_impl()->base + o) wh = "relative to instance " + std::to_string(j);
          viol(std::string("C04 mode=") + kMode + " history kind=load-relative-to-other-sandbox", hkey(w.hist), "instance " + std::to_string(i) + ": cell holding " + std::to_string(o) + " loaded " + wh);
        }
        // store
        tn<int*> tp;
        tp.assign_raw_pointer(sb, reinterpret_cast<int*>(base + o));
        memset(reinterpret_cast<void*>(base + 0x100), 0xEE, 8);
        *cell = tp;
        PtrT seen;
        memcpy(&seen, reinterpret_cast<void*>(base + 0x100), sizeof seen);
        if ((uint64_t)seen != o) viol(std::string("C04 mode=") + kMode + " history kind=store-wrong-representation", hkey(w.hist), "instance " + std::to_string(i) + ": stored offset " + std::to_string(o) + ", cell holds " + std::to_string((uint64_t)seen));
      }
      // function pointers go through the finder in every mode
      for (uint64_t r = 1; r <= 3; r++) {
        n_trans++;
        PtrT rep = (PtrT)r;
        memcpy(reinterpret_cast<void*>(base + 0x120), &rep, sizeof rep);
        tn<int (**)(long)> fcell;
        fcell.assign_raw_pointer(sb, reinterpret_cast<int (**)(long)>(base + 0x120));
        tn<int (*)(long)> f = *fcell;
        const void* want = impl->ftab[r];
        if (reinterpret_cast<const void*>(f.UNSAFE_unverified()) != want)
          viol(std::string("C04 mode=") + kMode + " history kind=function-pointer-through-other-table", hkey(w.hist), "instance " + std::to_string(i) + " representation " + std::to_string(r));
        // and back
        memset(reinterpret_cast<void*>(base + 0x120), 0xEE, 8);
        *fcell = f;
        PtrT seen;
        memcpy(&seen, reinterpret_cast<void*>(base + 0x120), sizeof seen);
        if ((uint64_t)seen != r) viol(std::string("C04 mode=") + kMode + " history kind=function-pointer-store", hkey(w.hist), "instance " + std::to_string(i) + " representation " + std::to_string(r) + " stored as " + std::to_string((uint64_t)seen));
      }
      // null in a function cell
      {
        PtrT z = 0;
        memcpy(reinterpret_cast<void*>(base + 0x120), &z, sizeof z);
        tn<int (**)(long)> fcell;
        fcell.assign_raw_pointer(sb, reinterpret_cast<int (**)(long)>(base + 0x120));
        tn<int (*)(long)> f = *fcell;
        if (f.UNSAFE_unverified() != nullptr) viol(std::string("C04 mode=") + kMode + " history kind=function-null", hkey(w.hist), "0 is not null");
      }
    } catch (const std::runtime_error& e) {
      viol(std::string("C04 mode=") + kMode + " history kind=unexpected-abort", hkey(w.hist), std::string("instance ") + std::to_string(i) + ": " + e.what());
    }
  }
}

static void world_check_registry(World& w)
{
  if (SB::dead_queries() != 0)
    viol(std::string("C04 mode=") + kMode + " history kind=consulted-destroyed-sandbox", hkey(w.hist), "while translating pointers of live instances the library asked a sandbox object that is NOT created whether an address is in its memory (" + std::to_string(SB::dead_queries()) + " queries): the live list holds a destroyed instance");
  SB::dead_queries() = 0;
}
static void world_apply(World& w, int i)
{
  if (!w.live[i]) {
    w.s[i].create_sandbox(i);
    w.live[i] = true;
    w.order.push_back(i);
    // fill function table in an instance-specific order
    auto* impl = w.s[i].get_sandbox_impl();
    for (int k = 0; k < 3; k++) impl->fn_to_rep(fn_of(i + k));
    w.hist += "c" + std::to_string(i);
  } else {
    w.s[i].destroy_sandbox();
    w.live[i] = false;
    w.order.erase(std::find(w.order.begin(), w.order.end(), i));
    w.hist += "d" + std::to_string(i);
  }
}

static void run_history(const std::vector<int>& h, std::set<std::string>& lists)
{
  // every history starts from an empty process-wide list (read/cleared through -fno-access-control), so that a
  // history's verdict does not depend on the histories executed before it in this process
  sbx_t::sandbox_list.clear();
  World w;
  {
    // the history as the replay key spells it (create / destroy alternate per instance)
    std::string hs;
    bool lv[3] = { false, false, false };
    for (int i : h) {
      hs += (lv[i] ? "d" : "c") + std::to_string(i);
      lv[i] = !lv[i];
    }
    crash_case(std::string("C04 mode=") + kMode + " history", hkey(hs));
    g_cur_hist = hs;
  }
  for (int i : h) {
    world_apply(w, i);
  }
  std::string l;
  for (int i : w.order) l += std::to_string(i);
  lists.insert(l);
  world_check(w);
  world_check_registry(w);
  for (int i = 0; i < 3; i++)
    if (w.live[i]) w.s[i].destroy_sandbox();
  crash_clear();
  if (!g_stop_after.empty() && g_cur_hist == g_stop_after) {
    stat("evaluations", n_eval + n_trans);
    finish();
    exit(0);
  }
}

int main(int argc, char** argv)
{
  parse(argc, argv);
  install_crash_reporter();
  g_thorough = has_flag("--thorough");
  std::string what = opt("--what", "all");
  if (g_args.replay) {
    auto f = split(g_args.replay, '|');
    if (f[0] == "hist" && f.size() >= 3) {
      // re-run the enumeration this history was part of, up to and including it (falls through to the normal flow)
      auto q = split(f[2], '/');
      g_args.part = atoi(q[0].c_str());
      g_args.parts = atoi(q[1].c_str());
      g_hist_depth = atoi(q[2].c_str());
      g_thorough = g_hist_depth > 5;
      g_stop_after = f[1];
      g_args.replay = nullptr;
    } else if (f[0] == "hist") {
      std::vector<int> h;
      for (size_t i = 0; i + 1 < f[1].size(); i += 2) h.push_back(f[1][i + 1] - '0');
      std::set<std::string> l;
      run_history(h, l);
    } else {
      sbx_t a, b;
      a.create_sandbox(0);
      b.create_sandbox(1);
      {
        auto cb = b.register_callback(cb_ptr);
        uint64_t off = f[2] == "null" ? ~0ull : strtoull(f[2].c_str(), nullptr, 10);
        positions(b, cb, off);
      }
      b.destroy_sandbox();
      a.destroy_sandbox();
    }
    if (g_args.replay) {
      stat("evaluations", n_eval + n_trans);
      finish();
      return 0;
    }
  }
  if (what == "all" || what == "positions") {
    // two live instances; the swept one is the *second* in the list
    sbx_t a, b;
    a.create_sandbox(0);
    b.create_sandbox(1);
    {
      auto cb = b.register_callback(cb_ptr);
      auto cba = a.register_callback(cb_ptr);
      if (mine(0)) positions(b, cb, ~0ull);
      if (kSize <= 65536) {
        for (uint64_t o = 1; o < kSize; o++)
          if (mine(o / 64)) positions(b, cb, o);
      } else {
        for (i128 v : lattice128())
          if (v > 0 && v < (i128)kSize && mine((uint64_t)v)) positions(b, cb, (uint64_t)v);
      }
      // and a few on the first instance
      for (uint64_t o : { (uint64_t)1, (uint64_t)0x1234, kSize - 1 })
        if (mine(o)) positions(a, cba, o);
    }
    b.destroy_sandbox();
    a.destroy_sandbox();
  }
  if (what == "sweep32" && kSize > 65536) {
    // complete sweep of the 4 GiB instance through both translation paths and a pointer cell
    sbx_t a, b;
    a.create_sandbox(0);
    b.create_sandbox(1);
    auto* impl = b.get_sandbox_impl();
    uintptr_t base = impl->base;
    const void* example = reinterpret_cast<const void*>(base + 8);
    tn<int**> cell;
    cell.assign_raw_pointer(b, reinterpret_cast<int**>(base + 0x100));
    long long bad_n = 0;
    for (uint64_t o = 1; o < kSize; o++) {
      if (!mine(o >> 20)) { o |= 0xfffff; continue; }
      void* addr = reinterpret_cast<void*>(base + o);
      bool ok = (uint64_t)b.get_sandboxed_pointer<int*>(addr) == o && reinterpret_cast<uintptr_t>(b.get_unsandboxed_pointer<int*>((PtrT)o)) == base + o &&
                (uint64_t)sbx_t::get_sandboxed_pointer_no_ctx<int*>(addr, example) == o && reinterpret_cast<uintptr_t>(sbx_t::get_unsandboxed_pointer_no_ctx<int*>((PtrT)o, example)) == base + o;
      PtrT w = (PtrT)o;
      memcpy(reinterpret_cast<void*>(base + 0x100), &w, sizeof w);
      tn<int*> back = *cell;
      ok = ok && reinterpret_cast<uintptr_t>(back.UNSAFE_unverified()) == base + o;
      n_eval++;
      if (!ok && bad_n++ < 3) bad("sweep32", "wrong-translation", o, "offset does not round-trip on the 32-bit instance");
      if ((o & 0xffffff) == 0 && expired()) break;
    }
    b.destroy_sandbox();
    a.destroy_sandbox();
    stat("sweep32_offsets", n_eval);
  }
  if ((what == "all" || what == "histories") && kSize <= 65536) {
    if (g_stop_after.empty()) g_hist_depth = g_thorough ? 7 : 5;
    int depth = g_hist_depth;
    std::set<std::string> lists;
    uint64_t idx = 0;
    std::vector<int> h;
    // all histories of length 0..depth over {toggle 0, toggle 1, toggle 2}
    std::function<void()> rec = [&]() {
      if (mine(idx++)) run_history(h, lists);
      if ((int)h.size() >= depth) return;
      for (int i = 0; i < 3; i++) {
        h.push_back(i);
        rec();
        h.pop_back();
      }
    };
    rec();
    for (auto& l : lists) setadd("ordered_live_lists", l.empty() ? "(empty)" : l);
    sample("{\"history\":\"c0c1d0c0\",\"meaning\":\"create 0, create 1, destroy 0, create 0 -> live list [1,0]\"}", 1);
  }
  stat("evaluations", n_eval + n_trans);
  stat("nontrivial", n_nontriv + n_trans);
  stat("states", n_states);
  stat("transitions", n_trans + n_eval);
  stat("traces", n_states);
  finish();
  return 0;
}
