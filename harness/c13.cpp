// C13 — callback registrations have exactly one owner and end when that owner does.
// Engine H: BFS over ownership histories (owners o0..o2 as optional holders, functions f0..f2, one
// sandbox object that may be destroyed and re-created), replayed on fresh objects, in lock-step with
// a reference set model; seeds pre-fill the backend's entry-point table (0 / n-2 / n-1 / n).
// Built once per backend (BK_NOOP / BK_DYLIB / BK_MBOX) with -fno-access-control (tables are only read).
#include "backends.hpp"
#include "vcommon.hpp"
#include <deque>
#include <optional>
#include <unordered_set>

using namespace vc;
using CB = rlbox::sandbox_callback<int (*)(int), SB>;

static std::vector<int> g_ran;
template<int K>
static tn<int> fpool(sbx_t&, tn<int> v)
{
  g_ran.push_back(K);
  return v.UNSAFE_unverified() + 1000 * K;
}
using cbfn = tn<int> (*)(sbx_t&, tn<int>);
template<size_t... Is>
static std::vector<cbfn> mk_pool(std::index_sequence<Is...>)
{
  return { &fpool<(int)Is>... };
}
static const std::vector<cbfn> g_fn = mk_pool(std::make_index_sequence<3 + 64>{}); // 0..2 = f0..f2, 3.. = fillers
static int fn_index(void* key)
{
  for (size_t i = 0; i < g_fn.size(); i++)
    if (reinterpret_cast<void*>(g_fn[i]) == key) return (int)i;
  return key ? -2 : -1;
}

struct Op
{
  char k;
  int i, j;
};
static std::string ops(const Op& o)
{
  char b[16];
  snprintf(b, sizeof b, "%c%d%d", o.k, o.i, o.j);
  return b;
}

struct Model
{
  bool created = false;
  int inc = 0;
  int st[3] = { 0, 0, 0 }; // 0 absent, 1 empty, 2 live
  int fn[3] = { -1, -1, -1 };
  int oinc[3] = { 0, 0, 0 };
  int box[3] = { 0, 0, 0 }; // which sandbox object the registration belongs to: 0 = sb (has a lifecycle), 1 = sb2 (always created)
  int nfill = 0; // fillers registered in incarnation 1
  // registered functions of sandbox s
  std::set<int> R(int s = 0) const
  {
    std::set<int> r;
    if (s == 0 && !created) return r;
    for (int i = 0; i < 3; i++)
      if (st[i] == 2 && box[i] == s && (s == 1 || oinc[i] == inc)) r.insert(fn[i]);
    if (s == 0 && inc == 1)
      for (int f = 0; f < nfill; f++) r.insert(3 + f);
    return r;
  }
  bool stale(int i) const { return st[i] == 2 && box[i] == 0 && oinc[i] != inc; }
};

struct World
{
  sbx_t sb;
  sbx_t sb2; // a second sandbox object of the same type: owners can be moved across
  std::optional<CB> own[3];
  std::vector<CB> fillers;
  Model m;
  std::string hist;
  bool with_lifecycle = false;
};

static long long n_states = 0, n_trans = 0, n_eval = 0, n_nontriv = 0;
static int g_seed = 0;

static std::string kase_of(const World& w, const Op* op = nullptr)
{
  return std::string(bk_name) + "|seed" + std::to_string(g_seed) + "|" + w.hist + (op ? " " + ops(*op) : "");
}
static std::string sig(const char* kind, const char* opk)
{
  return std::string("C13 backend=") + bk_name + " op=" + opk + " kind=" + kind;
}

// set by apply(): this step ended (overwrote / unregistered / destroyed) an owner that belongs to an EARLIER incarnation
// of the sandbox while the same function is registered in the current incarnation
static bool g_stale_collision = false;
static void check_state(World& w, const std::string& kase, const char* opk_in)
{
  std::string opk_s = std::string(opk_in) + (g_stale_collision ? "(stale-owner-of-reregistered-function)" : "");
  const char* opk = opk_s.c_str();
  auto& m = w.m;
  // 1. owners' own view
  for (int i = 0; i < 3; i++) {
    if (!w.own[i]) continue;
    if (m.stale(i)) continue; // an owner of an earlier incarnation cannot know; its operations must merely be harmless
    if (m.box[i] == 0 && !m.created) continue;
    bool un = w.own[i]->is_unregistered();
    n_eval++;
    if (un != (m.st[i] != 2)) viol(sig("is_unregistered-mismatch", opk), kase, "owner " + std::to_string(i) + " reports is_unregistered()=" + (un ? "true" : "false") + " but the model says it " + (m.st[i] == 2 ? "owns f" + std::to_string(m.fn[i]) : "owns nothing"));
  }
  for (int s = 0; s < 2; s++) {
    if (s == 0 && !m.created) continue;
    sbx_t& S = s ? w.sb2 : w.sb;
    const std::string sn = s ? " (second sandbox)" : "";
    auto R = m.R(s);
    auto live_here = [&](int i) { return w.own[i] && m.st[i] == 2 && m.box[i] == s && !m.stale(i); };
    // 2. entry points of live owners: non-null and pairwise distinct
    std::map<uint64_t, int> eps;
    for (int i = 0; i < 3; i++) {
      if (!live_here(i)) continue;
      uint64_t ep = (uint64_t)w.own[i]->UNSAFE_sandboxed(S);
      n_eval++;
      if (ep == 0) viol(sig("null-entry-point", opk), kase, "live owner " + std::to_string(i) + " (f" + std::to_string(m.fn[i]) + ") reports a null entry point" + sn);
      else if (eps.count(ep)) viol(sig("shared-entry-point", opk), kase, "owners " + std::to_string(eps[ep]) + " and " + std::to_string(i) + " report the same entry point" + sn);
      eps[ep] = i;
    }
    // 3. what the backend table makes reachable == R
    std::set<int> reach;
    for (void* k : slot_keys(S))
      if (k) reach.insert(fn_index(k));
    n_eval++;
    if (reach != R) {
      std::string a, b;
      for (int x : reach) a += "f" + std::to_string(x) + " ";
      for (int x : R) b += "f" + std::to_string(x) + " ";
      bool extra = false;
      for (int x : reach)
        if (!R.count(x)) extra = true;
      viol(sig(extra ? "reachable-without-live-owner" : "owned-but-unreachable", opk), kase, "functions reachable through the backend's entry-point table: {" + a + "} but live registered owners hold {" + b + "}" + sn);
    }
    // 4. a guest call through each live owner's entry point runs exactly its function
    for (int i = 0; i < 3; i++) {
      if (!live_here(i)) continue;
      if ((uint64_t)w.own[i]->UNSAFE_sandboxed(S) == 0) continue;
      if (!reach.count(m.fn[i])) continue; // already reported above; the entry point would jump through an empty slot
      g_ran.clear();
      int res = -1;
      auto o = attempt([&] { res = S.invoke_sandbox_function(call_cb_n, *w.own[i], 7, 1).UNSAFE_unverified(); });
      n_eval++;
      if (o != RET || res != 7 + 1000 * m.fn[i] || g_ran.size() != 1 || g_ran[0] != m.fn[i])
        viol(sig("entry-point-runs-wrong-function", opk), kase, "calling owner " + std::to_string(i) + "'s entry point: expected f" + std::to_string(m.fn[i]) + " exactly once, got result " + std::to_string(res) + " after " + std::to_string(g_ran.size()) + " runs" + sn);
    }
  }
}

// returns false if the history ends here (an abort was observed / expected)
static bool apply(World& w, const Op& op)
{
  auto& m = w.m;
  std::string kase = kase_of(w, &op);
  n_trans++;
  auto R = m.R();
  auto release = [&](int i) {
    (void)i; // R is derived from owner states; nothing else to do
  };
  const char* opk = "?";
  g_stale_collision = false;
  auto stale_with = [&](int i, int also_fn) {
    if (!(m.stale(i) && m.created)) return false;
    return R.count(m.fn[i]) > 0 || m.fn[i] == also_fn;
  };
  switch (op.k) {
    case 'r': g_stale_collision = stale_with(op.i, op.j); break;
    case 'R': g_stale_collision = stale_with(op.i, -1); break; // overwriting a stale owner of sb, whichever sandbox the new registration goes to
    case 'u':
    case 'd': g_stale_collision = stale_with(op.i, -1); break;
    case 'm': g_stale_collision = op.i != op.j && w.own[op.i] && w.own[op.j] && stale_with(op.i, (m.st[op.j] == 2 && m.box[op.j] == 0) ? m.fn[op.j] : -1); break;
    default: break;
  }
  switch (op.k) {
    case 'r':
    case 'R':
    case 'e': {
      // (the known stale-owner defect is the same whichever sandbox the NEW registration goes to: keep one name for it)
      opk = op.k == 'r' || (op.k == 'R' && g_stale_collision) ? "register-assign" : op.k == 'R' ? "register-assign(second sandbox)" : "register-construct";
      const int s = op.k == 'R';
      sbx_t& S = s ? w.sb2 : w.sb;
      if (s) R = m.R(1);
      if (op.k == 'e' && w.own[op.i]) return true;
      if (op.k != 'e' && !w.own[op.i]) {
        w.own[op.i].emplace();
        m.st[op.i] = 1;
      }
      bool dup = R.count(op.j), full = R.size() >= kSlots;
      std::optional<CB> fresh;
      auto o = attempt([&] {
        if (op.k != 'e') *w.own[op.i] = S.register_callback(g_fn[op.j]);
        else w.own[op.i].emplace(S.register_callback(g_fn[op.j]));
      });
      if (s == 0 && !m.created) {
        n_nontriv++;
        if (o != ABORT) viol(sig("registered-without-sandbox", opk), kase, "register_callback on a sandbox that is not created did not abort");
        return false;
      }
      if (dup) {
        n_nontriv++;
        if (o != ABORT) {
          viol(sig("duplicate-accepted", opk), kase, "f" + std::to_string(op.j) + " is already registered by a live owner, second registration did not abort");
          return false;
        }
        break; // refused: nothing changed; the history goes on
      }
      if (full) {
        n_nontriv++;
        if (o != ABORT) {
          bool claims = w.own[op.i] && !w.own[op.i]->is_unregistered();
          uint64_t ep = w.own[op.i] ? (uint64_t)w.own[op.i]->UNSAFE_sandboxed(w.sb) : 0;
          viol(sig("refused-registration-looks-registered", opk), kase, "all " + std::to_string(kSlots) + " entry points are in use; register_callback returned an object with is_unregistered()=" + (claims ? "false" : "true") + " and entry point " + std::to_string(ep) + " instead of refusing");
          return false;
        }
        break; // refused: nothing changed; the history goes on
      }
      if (o != RET) {
        viol(sig("spurious-abort", opk), kase, "f" + std::to_string(op.j) + " is not registered and the table has room (" + std::to_string(R.size()) + "/" + std::to_string(kSlots) + "), registration aborted");
        return false;
      }
      release(op.i);
      m.st[op.i] = 2;
      m.fn[op.i] = op.j;
      m.oinc[op.i] = s ? 1 : m.inc;
      m.box[op.i] = s;
      break;
    }
    case 'u':
    case 'd': {
      opk = op.k == 'u' ? "unregister" : "destroy-owner";
      if (!w.own[op.i]) return true;
      bool stale = m.stale(op.i) && m.created;
      auto o = attempt([&] {
        if (op.k == 'u') w.own[op.i]->unregister();
        else w.own[op.i].reset();
      });
      if (o != RET) {
        viol(sig(stale ? "stale-owner-abort" : "abort", opk), kase, std::string("ending an owner aborted") + (stale ? " (owner belongs to an earlier incarnation of the sandbox)" : ""));
        return false;
      }
      m.st[op.i] = op.k == 'u' ? 1 : 0;
      break;
    }
    case 'm': {
      opk = "move-assign";
      if (op.i == op.j || !w.own[op.i] || !w.own[op.j]) return true;
      auto o = attempt([&] { *w.own[op.i] = std::move(*w.own[op.j]); });
      if (o != RET) {
        viol(sig("abort", opk), kase, "move assignment aborted");
        return false;
      }
      m.st[op.i] = m.st[op.j];
      m.fn[op.i] = m.fn[op.j];
      m.oinc[op.i] = m.oinc[op.j];
      m.box[op.i] = m.box[op.j];
      m.st[op.j] = 1;
      break;
    }
    case 'c': {
      opk = "move-construct";
      if (op.i == op.j || w.own[op.i] || !w.own[op.j]) return true;
      auto o = attempt([&] { w.own[op.i].emplace(std::move(*w.own[op.j])); });
      if (o != RET) {
        viol(sig("abort", opk), kase, "move construction aborted");
        return false;
      }
      m.st[op.i] = m.st[op.j];
      m.fn[op.i] = m.fn[op.j];
      m.oinc[op.i] = m.oinc[op.j];
      m.box[op.i] = m.box[op.j];
      m.st[op.j] = 1;
      break;
    }
    case 'X': {
      opk = "destroy_sandbox";
      auto o = attempt([&] { w.sb.destroy_sandbox(); });
      if (!m.created) {
        if (o != ABORT) viol(sig("destroy-not-created", opk), kase, "destroy_sandbox on a sandbox that is not created did not abort");
        return false;
      }
      if (o != RET) {
        viol(sig("abort", opk), kase, "destroy_sandbox aborted");
        return false;
      }
      m.created = false;
      break;
    }
    case 'C': {
      opk = "create_sandbox";
      auto o = attempt([&] { bk_create(w.sb, 0, 1); });
      if (m.created) {
        if (o != ABORT) viol(sig("create-twice", opk), kase, "create_sandbox on a created sandbox did not abort");
        return false;
      }
      if (o != RET) {
        viol(sig("abort", opk), kase, "create_sandbox aborted");
        return false;
      }
      m.created = true;
      m.inc++;
      break;
    }
  }
  w.hist += (w.hist.empty() ? "" : " ") + ops(op);
  if ((n_trans % 4099) == 1) {
    std::string r;
    for (int x : m.R()) r += "f" + std::to_string(x) + " ";
    sample(std::string("{\"backend\":\"") + bk_name + "\",\"seed_fillers\":" + std::to_string(g_seed) + ",\"history\":\"" + w.hist + "\",\"model_registered\":\"" + r + "\"}", 6);
  }
  long long before = g_nviol;
  check_state(w, kase, opk);
  // a state in which the property is already violated is not expanded further: everything after it would only
  // restate the same defect under other names
  return g_nviol == before;
}

static bool replay(World& w, int seed, const std::vector<Op>& h)
{
  bk_create(w.sb, 0, 1);
  bk_create(w.sb2, 1, 1);
  w.m.created = true;
  w.m.inc = 1;
  w.fillers.reserve(70);
  for (int f = 0; f < seed; f++) w.fillers.push_back(w.sb.register_callback(g_fn[3 + f]));
  w.m.nfill = seed;
  for (auto& op : h)
    if (!apply(w, op)) return false;
  return true;
}
static void teardown(World& w)
{
  for (auto& o : w.own) {
    try {
      o.reset();
    } catch (...) {
    }
  }
  try {
    w.fillers.clear();
  } catch (...) {
  }
  try {
    if (w.m.created) w.sb.destroy_sandbox();
  } catch (...) {
  }
  try {
    w.sb2.destroy_sandbox();
  } catch (...) {
  }
}

static std::string state_key(World& w)
{
  auto& m = w.m;
  std::string k = std::to_string(m.created) + "/" + std::to_string(std::min(m.inc, 3)) + "/";
  for (int i = 0; i < 3; i++) {
    bool stale = m.stale(i);
    k += std::to_string(m.st[i]) + (m.st[i] == 2 ? ":f" + std::to_string(m.fn[i]) + (stale ? "s" : "") + (m.box[i] ? "B" : "") : "") + ";";
  }
  // implementation side (finer key only): core key list and backend slot assignment
  k += "|keys=";
  for (void* p : w.sb.callback_keys) k += std::to_string(fn_index(p)) + ",";
  k += "|slots=";
  auto sk = slot_keys(w.sb);
  for (size_t i = 0; i < sk.size(); i++)
    if (sk[i]) k += std::to_string(i) + ":" + std::to_string(fn_index(sk[i])) + ",";
  k += "|keys2=";
  for (void* p : w.sb2.callback_keys) k += std::to_string(fn_index(p)) + ",";
  k += "|slots2=";
  auto sk2 = slot_keys(w.sb2);
  for (size_t i = 0; i < sk2.size(); i++)
    if (sk2[i]) k += std::to_string(i) + ":" + std::to_string(fn_index(sk2[i])) + ",";
  // the operation applied last: state a change adds to the library (a "most recent" cache, a remembered slot) is not among the
  // fields read above, so two histories that end differently are not merged even when every known field agrees
  auto pos = w.hist.rfind(' ');
  k += "|last=" + (pos == std::string::npos ? w.hist : w.hist.substr(pos + 1));
  return k;
}

static std::vector<Op> alphabet(bool lifecycle)
{
  std::vector<Op> a;
  for (int i = 0; i < 3; i++) {
    for (int k = 0; k < 3; k++) a.push_back({ 'r', i, k });
    for (int k = 0; k < 2; k++) a.push_back({ 'R', i, k }); // the same functions registered with the second sandbox
    a.push_back({ 'e', i, (i + 1) % 3 });
    a.push_back({ 'u', i, 0 });
    a.push_back({ 'd', i, 0 });
    for (int j = 0; j < 3; j++)
      if (i != j) {
        a.push_back({ 'm', i, j });
        a.push_back({ 'c', i, j });
      }
  }
  if (lifecycle) {
    a.push_back({ 'X', 0, 0 });
    a.push_back({ 'C', 0, 0 });
  }
  return a;
}

// "can fk be registered now?" on a replayed copy
static void probes(int seed, const std::vector<Op>& h)
{
  for (int k = 0; k < 3; k++) {
    World w;
    if (replay(w, seed, h) && w.m.created) {
      auto R = w.m.R();
      bool expect_ok = !R.count(k) && R.size() < kSlots;
      std::optional<CB> tmp;
      auto o = attempt([&] { tmp.emplace(w.sb.register_callback(g_fn[k])); });
      n_eval++;
      std::string kase = kase_of(w) + " probe" + std::to_string(k);
      bool stale_owner_of_k = false;
      for (int i = 0; i < 3; i++)
        if (w.m.stale(i) && w.m.fn[i] == k) stale_owner_of_k = true;
      if (expect_ok && o != RET)
        viol(sig(stale_owner_of_k ? "cannot-register-while-stale-owner-exists" : "cannot-register-free-function", "probe"), kase, "f" + std::to_string(k) + " has no live registered owner in this incarnation and the table has room, but registering it aborted");
      if (!expect_ok && o == RET && !R.count(k) && tmp && !tmp->is_unregistered() && R.size() >= kSlots)
        viol(sig("refused-registration-looks-registered", "probe"), kase, "table full but a registration was handed out");
      if (!expect_ok && R.count(k) && o == RET) viol(sig("duplicate-accepted", "probe"), kase, "f" + std::to_string(k) + " registered twice");
      try {
        tmp.reset();
      } catch (...) {
      }
    }
    teardown(w);
  }
}

static void bfs(int seed, int depth, bool lifecycle, uint64_t& idx)
{
  g_seed = seed;
  auto alpha = alphabet(lifecycle);
  std::deque<std::vector<Op>> frontier;
  std::unordered_set<std::string> seen;
  frontier.push_back({});
  {
    World w;
    replay(w, seed, {});
    seen.insert(state_key(w));
    teardown(w);
  }
  long long local = 0;
  while (!frontier.empty()) {
    auto h = std::move(frontier.front());
    frontier.pop_front();
    local++;
    n_states++;
    probes(seed, h);
    if ((int)h.size() >= depth) continue;
    if (expired()) return;
    for (auto& op : alpha) {
      auto h2 = h;
      h2.push_back(op);
      World w;
      bool ok = replay(w, seed, h2);
      if (ok) {
        auto k = state_key(w);
        if (seen.insert(k).second) frontier.push_back(h2);
      }
      teardown(w);
    }
  }
  sample(std::string("{\"backend\":\"") + bk_name + "\",\"seed_fillers\":" + std::to_string(seed) + ",\"depth\":" + std::to_string(depth) + ",\"lifecycle_ops\":" + (lifecycle ? "true" : "false") + ",\"states\":" + std::to_string(local) + "}", 20);
  (void)idx;
}

int main(int argc, char** argv)
{
  parse(argc, argv);
  bool thorough = has_flag("--thorough");
  if (g_args.replay) {
    auto f = split(g_args.replay, '|');
    if (f.size() < 3 || f[0] != bk_name) {
      finish();
      return 0;
    }
    int seed = atoi(f[1].c_str() + 4);
    g_seed = seed;
    std::vector<Op> h;
    int probe = -1;
    for (auto& t : split(f[2], ' ')) {
      if (t.rfind("probe", 0) == 0) probe = atoi(t.c_str() + 5);
      else if (t.size() == 3) h.push_back({ t[0], t[1] - '0', t[2] - '0' });
    }
    if (probe >= 0) probes(seed, h);
    else {
      World w;
      replay(w, seed, h);
      teardown(w);
    }
    stat("evaluations", n_eval + n_trans);
    finish();
    return 0;
  }
  int seeds[4] = { 0, (int)kSlots - 2, (int)kSlots - 1, (int)kSlots };
  int depth = thorough ? 8 : 4;
  uint64_t idx = 0;
  for (int si = 0; si < 4; si++) {
    if (!mine(si)) continue;
    bfs(seeds[si], si == 0 ? depth : depth - 1, si == 0, idx);
  }
  stat("states", n_states);
  stat("transitions", n_trans);
  stat("traces", n_trans);
  stat("evaluations", n_eval + n_trans);
  stat("nontrivial", n_nontriv + n_states);
  finish(expired());
  return 0;
}
