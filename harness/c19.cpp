// C19 — transition notifications bracket every boundary crossing and stay balanced.
// Engine T: all call trees (depth <= 3, width <= 2, two sandboxes) x no fault / one fault at every
// position (x pairs in the thorough tier). The hook log must be the well-nested word the tree
// prescribes (closed in reverse order after a fault), every record must carry kind, identity and the
// per-sandbox transition state, and there must be exactly one timing record per crossing begun.
#include <cstdint>
#include <vector>
struct TransRec
{
  int dir; // 1 = IN (entering the sandbox), 0 = OUT (leaving it)
  int kind; // 0 INVOKE, 1 CALLBACK
  const char* name;
  void* ptr;
  void* state;
};
static std::vector<TransRec> g_tlog;
static inline void trans_log(int dir, int kind, const char* name, void* ptr, void* state)
{
  g_tlog.push_back({ dir, kind, name, ptr, state });
}
#define RLBOX_TRANSITION_ACTION_IN(type, func_name, func_ptr, state) ::trans_log(1, (int)(type), func_name, (void*)(func_ptr), state)
#define RLBOX_TRANSITION_ACTION_OUT(type, func_name, func_ptr, state) ::trans_log(0, (int)(type), func_name, (void*)(func_ptr), state)
#define RLBOX_MEASURE_TRANSITION_TIMES
#define BK_MBOX
#include "backends.hpp"
#include "vcommon.hpp"
#include "ctree.hpp"

using namespace vc;
using CBT = rlbox::sandbox_callback<long (*)(int, short), SB>;
static const bool kWide = sizeof(g_long) == 8;
static long long n_eval = 0, n_nontriv = 0, n_trees = 0;
static int g_state_tag[2];

struct XRec
{
  int dir, kind, s, k; // expected record: k = pool index for callbacks, -1 for invokes
};
struct ModelFault
{};
// expected log by a pure walk over the tree
static void model_invoke(const Tree& t, int idx, const std::vector<Fault>& fs, std::vector<XRec>& out, std::vector<XRec>& timing)
{
  const TNode& nd = t.nodes[idx];
  auto has = [&](int kind, int j) {
    for (auto& f : fs)
      if (f.kind == kind && f.node == idx && (kind == F_INV_ARG || kind == F_INV_RES || f.j == j)) return true;
    return false;
  };
  out.push_back({ 1, 0, nd.s, -1 });
  struct Closer
  {
    std::vector<XRec>& o;
    std::vector<XRec>& tm;
    XRec r;
    XRec t;
    ~Closer()
    {
      o.push_back(r);
      tm.push_back(t);
    }
  } close_inv{ out, timing, { 0, 0, nd.s, -1 }, { 0, 0, nd.s, -1 } };
  if (has(F_INV_ARG, 0)) throw ModelFault();
  for (int j = 0; j < nd.n; j++) {
    out.push_back({ 0, 1, nd.s, nd.k });
    Closer close_cb{ out, timing, { 1, 1, nd.s, nd.k }, { 0, 1, nd.s, nd.k } };
    if (has(F_CB_ARG, j)) throw ModelFault();
    if (nd.child[j] >= 0) model_invoke(t, nd.child[j], fs, out, timing);
    if (has(F_CB_BODY, j)) throw ModelFault();
    if (has(F_CB_RES, j)) throw ModelFault();
  }
  if (has(F_INV_RES, 0)) throw ModelFault();
}

static std::string show(const std::vector<XRec>& v)
{
  std::string s;
  for (auto& r : v) s += std::string(r.dir ? "IN" : "OUT") + (r.kind ? "cb" + std::to_string(r.k) : std::string("inv")) + (r.s ? "B " : "A ");
  return s;
}

template<size_t... Is>
static void register_pool(sbx_t& sb, std::vector<CBT>& v, const int (&order)[3], std::index_sequence<Is...>)
{
  (void)sizeof...(Is);
  for (int i = 0; i < 3; i++) {
    int k = order[i];
    if (k == 0) v[0] = sb.register_callback(pool_cb<0>);
    if (k == 1) v[1] = sb.register_callback(pool_cb<1>);
    if (k == 2) v[2] = sb.register_callback(pool_cb<2>);
  }
}
static void* pool_key(int k)
{
  switch (k) {
    case 0: return (void*)&pool_cb<0>;
    case 1: return (void*)&pool_cb<1>;
    default: return (void*)&pool_cb<2>;
  }
}

static void run_case(const Tree& t, const std::vector<Fault>& fs, sbx_t* sbs[2], std::vector<CBT>* cbs[2], const std::string& kase)
{
  // expected
  std::vector<XRec> want, want_timing;
  bool model_faulted = false;
  try {
    model_invoke(t, 0, fs, want, want_timing);
  } catch (const ModelFault&) {
    model_faulted = true;
  }
  // actual
  g_tlog.clear();
  g_guest_results.clear();
  g_run.tree = &t;
  g_run.faults = fs;
  g_run.sb[0] = sbs[0];
  g_run.sb[1] = sbs[1];
  g_run.cbs[0] = cbs[0];
  g_run.cbs[1] = cbs[1];
  g_run.cblog.clear();
  sbs[0]->clear_transition_times();
  sbs[1]->clear_transition_times();
  bool faulted = false;
  try {
    run_node(0);
  } catch (const std::runtime_error&) {
    faulted = true;
  }
  n_eval++;
  if (!fs.empty()) n_nontriv++;
  std::string sg = std::string("C19 abi=") + mb::BK_ABI::name + " fault=" + (fs.empty() ? "none" : fkn[fs[0].kind]) + (fs.size() > 1 ? std::string("+") + fkn[fs[1].kind] : "");
  if (faulted != model_faulted) {
    viol(sg + " kind=harness-fault-mismatch", kase, faulted ? "execution aborted where the model expects none" : "injected fault did not surface");
    return;
  }
  // 1. word equality
  bool same = g_tlog.size() == want.size();
  std::vector<XRec> got;
  for (auto& r : g_tlog) {
    int s = r.state == &g_state_tag[0] ? 0 : r.state == &g_state_tag[1] ? 1 : -1;
    int k = -1;
    if (r.kind == 1)
      for (int q = 0; q < 3; q++)
        if (r.ptr == pool_key(q)) k = q;
    got.push_back({ r.dir, r.kind, s, r.kind == 1 ? k : -1 });
  }
  for (size_t i = 0; same && i < want.size(); i++)
    if (got[i].dir != want[i].dir || got[i].kind != want[i].kind || got[i].s != want[i].s || got[i].k != want[i].k) same = false;
  if (!same) {
    // classify
    int depth = 0;
    bool nested = true;
    std::vector<XRec> stack;
    for (auto& r : got) {
      bool opens = (r.kind == 0 && r.dir == 1) || (r.kind == 1 && r.dir == 0);
      if (opens) stack.push_back(r);
      else {
        if (stack.empty() || stack.back().kind != r.kind || stack.back().s != r.s || stack.back().k != r.k) nested = false;
        else stack.pop_back();
      }
    }
    (void)depth;
    if (!stack.empty()) nested = false;
    bool wrong_state = false;
    for (auto& r : got)
      if (r.s < 0) wrong_state = true;
    const char* kind = wrong_state ? "wrong-transition-state" : !nested ? "unbalanced-or-misnested" : "wrong-word";
    viol(sg + " kind=" + kind, kase, "notifications: " + show(got) + "| expected: " + show(want));
  }
  // 2. record payload: invokes carry the function name, callbacks carry no name and the callback key
  for (auto& r : g_tlog) {
    if (r.kind == 0 && (!r.name || strcmp(r.name, "node") != 0)) viol(sg + " kind=invoke-identity", kase, "INVOKE notification does not carry the function name");
    if (r.kind == 1 && r.name != nullptr) viol(sg + " kind=callback-identity", kase, "CALLBACK notification carries a function name");
  }
  // 3. timing: one record per crossing begun, per sandbox, in completion order
  for (int s = 0; s < 2; s++) {
    auto& tt = sbs[s]->process_and_get_transition_times();
    std::vector<XRec> wt;
    for (auto& r : want_timing)
      if (r.s == s) wt.push_back(r);
    bool ok = tt.size() == wt.size();
    for (size_t i = 0; ok && i < wt.size(); i++) {
      int kind = tt[i].invoke == rlbox::rlbox_transition::INVOKE ? 0 : 1;
      if (kind != wt[i].kind) ok = false;
      if (kind == 1 && tt[i].ptr != pool_key(wt[i].k)) ok = false;
      if (kind == 0 && (!tt[i].name || strcmp(tt[i].name, "node"))) ok = false;
    }
    if (!ok) viol(sg + " kind=timing-records", kase, "sandbox " + std::string(s ? "B" : "A") + ": " + std::to_string(tt.size()) + " timing records, expected " + std::to_string(wt.size()) + " (one per crossing begun, matching kind and identity)");
  }
  // 4. afterwards a fresh fault-free invocation is balanced again
  if (faulted) {
    g_tlog.clear();
    Tree one;
    TNode nd;
    nd.s = t.nodes[0].s;
    nd.k = 0;
    nd.n = 1;
    one.nodes.push_back(nd);
    g_run.tree = &one;
    g_run.faults.clear();
    bool f2 = false;
    try {
      run_node(0);
    } catch (const std::runtime_error&) {
      f2 = true;
    }
    if (f2 || g_tlog.size() != 4 || g_tlog[0].dir != 1 || g_tlog[1].dir != 0 || g_tlog[2].dir != 1 || g_tlog[3].dir != 0) viol(sg + " kind=not-balanced-after-fault", kase, "a fault-free invocation after the fault is not bracketed IN OUT IN OUT");
  }
}

static std::vector<Fault> positions(const Tree& t)
{
  std::vector<Fault> ps;
  // only positions the execution can reach are meaningful; reachability is decided by the model walk itself
  for (auto& nd : t.nodes) {
    if (!kWide) ps.push_back({ F_INV_ARG, nd.id, 0 });
    for (int j = 0; j < nd.n; j++) {
      if (kWide) ps.push_back({ F_CB_ARG, nd.id, j });
      ps.push_back({ F_CB_BODY, nd.id, j });
      if (!kWide) ps.push_back({ F_CB_RES, nd.id, j });
    }
    if (kWide) ps.push_back({ F_INV_RES, nd.id, 0 });
  }
  return ps;
}

#ifdef BK_BYNAME
// by-name lookup mode: the first invocation of a name on a sandbox goes through lookup_symbol and the backend's symbol lookup
static void* c19_symtab(int, const char* name)
{
  if (!strcmp(name, "node")) return (void*)&guest_node;
  return nullptr;
}
#endif

int main(int argc, char** argv)
{
  parse(argc, argv);
  bool thorough = has_flag("--thorough");
#ifdef BK_BYNAME
  mb::g_symtab = c19_symtab;
#endif
  sbx_t A, B;
  A.create_sandbox(0);
  B.create_sandbox(1);
  A.set_transition_state(&g_state_tag[0]);
  B.set_transition_state(&g_state_tag[1]);
  std::vector<CBT> cbA(3), cbB(3);
  {
    const int oa[3] = { 0, 1, 2 }, ob[3] = { 2, 0, 1 }; // same slot numbers hold different functions in A and B
    register_pool(A, cbA, oa, std::make_index_sequence<3>{});
    register_pool(B, cbB, ob, std::make_index_sequence<3>{});
  }
  sbx_t* sbs[2] = { &A, &B };
  std::vector<CBT>* cbs[2] = { &cbA, &cbB };
  std::vector<Tree> trees;
  gen_trees(g_args.replay ? std::max(3, tree_str_depth(g_args.replay)) : (thorough ? 4 : 3), 3, trees, true);
  // a few trees using the third pool function as well
  {
    std::vector<Tree> extra;
    gen_trees(2, 3, extra, false);
    for (auto& t : extra)
      if (t.nodes[0].k == 2) trees.push_back(t);
  }
  std::string rp = g_args.replay ? g_args.replay : "";
  uint64_t idx = 0;
  for (size_t ti = 0; ti < trees.size(); ti++) {
    auto& t = trees[ti];
    std::string ts = t.str();
    if (!rp.empty() && rp.rfind(ts + "|", 0) != 0) continue;
    if (rp.empty() && !mine(ti)) continue;
    n_trees++;
    if (rp.empty() || rp == ts + "|-") run_case(t, {}, sbs, cbs, ts + "|-");
    auto ps = positions(t);
    for (auto& f : ps) {
      std::string kase = ts + "|" + f.str();
      if (!rp.empty() && rp != kase) continue;
      run_case(t, { f }, sbs, cbs, kase);
    }
    if (thorough || !rp.empty())
      for (size_t a = 0; a < ps.size(); a++)
        for (size_t b = a + 1; b < ps.size(); b++) {
          // two faults can both be reached only if the first one is swallowed - RLBox never swallows, so the
          // second is unreachable; the pair still checks that an unreached position changes nothing
          std::string kase = ts + "|" + ps[a].str() + "+" + ps[b].str();
          if (!rp.empty() && rp != kase) continue;
          if (rp.empty() && t.nodes.size() > 3 && ((a * 31 + b) % 5)) continue;
          // the guest entry point carries ONE faulting callback index per invocation: two argument-conversion faults
          // in the same node are not expressible by the driver
          if (ps[a].kind == F_CB_ARG && ps[b].kind == F_CB_ARG && ps[a].node == ps[b].node) continue;
          run_case(t, { ps[a], ps[b] }, sbs, cbs, kase);
        }
    (void)idx;
  }
  cbA.clear();
  cbB.clear();
  A.destroy_sandbox();
  B.destroy_sandbox();
  stat("evaluations", n_eval);
  stat("nontrivial", n_nontriv);
  stat("trees", n_trees);
  sample("{\"tree\":\"Ak0(Bk1(-),-)\",\"fault\":\"callback-body@1.0\",\"expected\":\"INinvA OUTcb0A INinvB OUTcb1B INcb1B OUTinvB INcb0A OUTinvA\"}", 1);
  finish();
  return 0;
}
