// C07 — sandbox-memory accesses use exactly the bytes and encoding of the sandbox ABI.
// Engine X: type x address (all alignments; first/last bytes of the region, PROT_NONE page behind the
// last byte) x value / bit pattern x background pattern, for stores and six load paths.
// Oracle: a reference encoder/decoder over a hand-written lp32 layout table; after a store the whole
// 64 KiB region equals the background except the object's guest bytes; a load returns the reference
// decoding and does not depend on neighbouring bytes; faults on the guard page are violations.
#define RLBOX_USE_EXCEPTIONS
#define RLBOX_USE_STATIC_CALLS() mbox_lookup_symbol
#include "rlbox.hpp"
#include "mbox.hpp"
#include "vcommon.hpp"
#include "vstruct.hpp"
#include <csetjmp>
#include <csignal>
#include <optional>
rlbox_load_structs_from_library(vlib);

using namespace vc;
#ifdef C07_WIDE
using Cfg = mb::cfg<uint16_t, mb::abi_wide, mb::MASK, 2>;
#  define WSEL(a, b) b
#elif defined(C07_P64)
// pointer-wide (64-bit, base-relative) guest pointers: pointer cells, pointer arrays and struct fields only
using Cfg = mb::cfg<uint64_t, mb::abi_lp32, mb::MASK, 2, false, 16>;
#  define WSEL(a, b) a
#else
using Cfg = mb::cfg<uint16_t, mb::abi_lp32, mb::MASK, 2>;
#  define WSEL(a, b) a
#endif
using PtrT = Cfg::PtrT;
static constexpr int PW = sizeof(PtrT);
using VSG = std::conditional_t<PW == 2, VS_lp32_p16, VS_lp32_p64>;
using SB = mb::mbox<Cfg>;
using sbx_t = rlbox::rlbox_sandbox<SB>;
template<class T>
using tn = rlbox::tainted<T, SB>;
static const uint64_t kSize = SB::kSize;
static sbx_t* g_sb;
static uintptr_t g_base;
static uint8_t* g_mem;
static std::vector<uint8_t> g_bg; // reference background image
static long long n_eval = 0, n_nontriv = 0;
static bool g_thorough = false;

enum E4
{
  E4_A = 0,
  E4_B = 7,
  E4_C = 0x7fffffff
};
// an enumeration with a fixed underlying type whose width differs between the application and the lp32 guest
enum EL : long
{
  EL_A = 0,
  EL_B = 7,
  EL_C = 0x7fffffff
};
int gfn(long);
static int32_t guest_gfn(int32_t) { return 0; }

// ---- fault capture --------------------------------------------------------------------------------
static sigjmp_buf g_jb;
static volatile sig_atomic_t g_armed = 0;
static void on_segv(int, siginfo_t*, void*)
{
  if (g_armed) siglongjmp(g_jb, 1);
  _exit(139);
}
enum Out
{
  O_RET,
  O_ABORT,
  O_CRASH
};
template<class F>
static Out guarded(F&& f)
{
  if (sigsetjmp(g_jb, 1)) {
    g_armed = 0;
    return O_CRASH;
  }
  g_armed = 1;
  Out o = O_RET;
  try {
    f();
  } catch (const std::runtime_error&) {
    o = O_ABORT;
  }
  g_armed = 0;
  return o;
}

// ---- reference codec over the hand-written guest layout ---------------------------------------------
// guest width and signedness of every application type under lp32 + 16-bit pointers
template<class T>
struct gw;
#define GW(T, W, S)                                                                                                \
  template<>                                                                                                       \
  struct gw<T>                                                                                                     \
  {                                                                                                                \
    static constexpr int w = W;                                                                                    \
    static constexpr bool sgn = S;                                                                                 \
    static constexpr const char* n = #T;                                                                           \
  };
GW(bool, 1, false) GW(char, 1, true) GW(signed char, 1, true) GW(unsigned char, 1, false) GW(short, WSEL(2, 4), true) GW(unsigned short, WSEL(2, 4), false)
GW(int, WSEL(4, 8), true) GW(unsigned, WSEL(4, 8), false) GW(long, WSEL(4, 8), true) GW(unsigned long, WSEL(4, 8), false) GW(long long, 8, true) GW(unsigned long long, 8, false)
GW(E4, WSEL(4, 8), true) GW(EL, WSEL(4, 8), true) GW(char16_t, WSEL(2, 4), false) GW(char32_t, WSEL(4, 8), false)
#undef GW

static void set_bg(uint8_t pat)
{
  g_bg.assign(kSize, pat);
  memset(g_mem, pat, kSize);
}
static bool region_matches(uint64_t a, uint64_t len, const uint8_t* want, std::string& why)
{
  // whole region equals the background except [a,a+len) == want
  if (a && memcmp(g_mem, g_bg.data(), a) != 0) {
    for (uint64_t i = 0; i < a; i++)
      if (g_mem[i] != g_bg[i]) {
        why = "byte at offset " + std::to_string(i) + " (before the object at " + std::to_string(a) + ") changed";
        break;
      }
    return false;
  }
  if (a + len < kSize && memcmp(g_mem + a + len, g_bg.data() + a + len, kSize - a - len) != 0) {
    for (uint64_t i = a + len; i < kSize; i++)
      if (g_mem[i] != g_bg[i]) {
        why = "byte at offset " + std::to_string(i) + " (after the object [" + std::to_string(a) + "," + std::to_string(a + len) + ")) changed";
        break;
      }
    return false;
  }
  if (memcmp(g_mem + a, want, len) != 0) {
    why = "object bytes differ from the reference guest encoding";
    return false;
  }
  return true;
}
static void restore(uint64_t a, uint64_t len)
{
  uint64_t lo = a > 16 ? a - 16 : 0, hi = std::min<uint64_t>(kSize, a + len + 16);
  memcpy(g_mem + lo, g_bg.data() + lo, hi - lo);
}

// a source cell for sandbox-to-sandbox copies whose neighbourhood differs from the destination's background on both
// sides, so that a copy of the wrong length is visible in the destination's neighbourhood
static void decorate(uint64_t src, const uint8_t* obj, uint64_t len)
{
  for (int i = 0; i < 16; i++) {
    g_mem[src - 16 + i] = (uint8_t)(0x31 + 7 * i);
    g_mem[src + len + i] = (uint8_t)(0x42 + 5 * i);
  }
  memcpy(g_mem + src, obj, len);
}
static void undecorate(uint64_t src, uint64_t len)
{
  memcpy(g_mem + src - 16, g_bg.data() + src - 16, len + 32);
}

static void enc_int(i128 v, int w, uint8_t* out)
{
  u128 u = (u128)v;
  for (int i = 0; i < w; i++) out[i] = (uint8_t)(u >> (8 * i));
}
static i128 dec_int(const uint8_t* in, int w, bool sgn)
{
  u128 u = 0;
  for (int i = 0; i < w; i++) u |= (u128)in[i] << (8 * i);
  if (sgn && (in[w - 1] & 0x80)) u |= ~(u128)0 << (8 * w);
  return (i128)u;
}
static bool fits(i128 v, int w, bool sgn)
{
  if (sgn) return v >= -((i128)1 << (8 * w - 1)) && v < ((i128)1 << (8 * w - 1));
  return v >= 0 && v < ((i128)1 << (8 * w));
}

template<class T>
static i128 mval(T v)
{
  if constexpr (std::is_same_v<T, bool>) return v ? 1 : 0;
  else if constexpr (std::is_enum_v<T>) return (i128)(int)v;
  else if constexpr (std::is_signed_v<T>) return (i128)v;
  else return (i128)(u128)v;
}

template<class T>
static tn<T*> ptr_at(uint64_t a)
{
  tn<T*> p;
  p.assign_raw_pointer(*g_sb, reinterpret_cast<T*>(g_base + a));
  return p;
}

static std::vector<uint64_t> addresses(uint64_t gsz)
{
  std::vector<uint64_t> as;
  for (uint64_t a = 1; a < 64; a++) as.push_back(a);
  for (uint64_t a = kSize - 64 - gsz; a + gsz <= kSize; a++) as.push_back(a);
  for (uint64_t a = 64; a + gsz + 64 < kSize; a += g_thorough ? 61 : 977) as.push_back(a);
  return as;
}

static const uint8_t kPats[] = { 0x00, 0xFF, 0xA5 };

// ---- integers / bool / enum -----------------------------------------------------------------------
template<class T>
static void int_type(uint64_t& blk)
{
  const int w = gw<T>::w;
  const bool sgn = gw<T>::sgn;
  const char* tnm = gw<T>::n;
  std::vector<T> vals;
  if constexpr (std::is_same_v<T, bool>) vals = { false, true };
  else if constexpr (std::is_enum_v<T>) vals = { (T)0, (T)7, (T)0x7fffffff, (T)-5 };
  else vals = lattice<T>();
  // guest bit patterns for loads
  std::vector<i128> gpats;
  for (i128 v : lattice128())
    if (fits(v, w, sgn)) gpats.push_back(v);
  if constexpr (std::is_same_v<T, bool>) gpats = { 0, 1 };
  if constexpr (std::is_enum_v<T>) gpats = { 0, 7, 0x7fffffff, -5 };
  auto as = addresses(w);
  for (uint64_t a : as) {
    if (!mine(blk++)) continue;
    for (uint8_t pat : kPats) {
      set_bg(pat);
      // ---------------- stores ----------------
      for (T v : vals) {
        i128 m = mval(v);
        bool rep = fits(m, w, sgn);
        uint8_t want[8];
        enc_int(m, w, want);
        for (int form = 0; form < 3; form++) {
          std::string kase = std::string("store|") + tnm + "|" + std::to_string(a) + "|" + str(m) + "|" + std::to_string(pat) + "|" + std::to_string(form);
          std::string sg = std::string("C07 op=store type=") + tnm + " form=" + (form == 0 ? "plain" : form == 1 ? "tainted" : "tainted_volatile");
          auto p = ptr_at<T>(a);
          bool exists = true;
          Out o = guarded([&] {
            if (form == 0) *p = v;
            else if (form == 1) {
              tn<T> t = v;
              *p = t;
            } else {
              // source: another cell holding the same value (only if representable there)
              if (!rep) {
                exists = false;
                return;
              }
              uint64_t src = a < 0x8000 ? 0xC000 : 0x4000;
              decorate(src, want, w);
              auto q = ptr_at<T>(src);
              *p = *q;
              undecorate(src, w);
            }
          });
          if (!exists) continue;
          n_eval++;
          if (a + w == kSize || a < 8 || !rep) n_nontriv++;
          std::string why;
          if (o == O_CRASH) viol(sg + " kind=crash", kase, "store faulted");
          else if (rep) {
            if (o == O_ABORT) viol(sg + " kind=spurious-abort", kase, "representable value aborted");
            else if (!region_matches(a, w, want, why)) viol(sg + " kind=bytes", kase, why);
          } else {
            if (o != O_ABORT) viol(sg + " kind=silent-truncation", kase, "value " + str(m) + " does not fit the guest type but the store did not abort");
            else if (!region_matches(a, 0, want, why)) viol(sg + " kind=aborted-store-wrote", kase, why);
          }
          restore(a, w);
        }
      }
      // ---------------- loads ----------------
      for (i128 g : gpats) {
        uint8_t bytes[8];
        enc_int(g, w, bytes);
        bool rep;
        if constexpr (std::is_same_v<T, bool>) rep = true;
        else if constexpr (std::is_enum_v<T>) rep = true;
        else rep = representable<T>(g);
        memcpy(g_mem + a, bytes, w);
        for (int path = 0; path < 7; path++) {
          static const char* pn[] = { "to-tainted", "UNSAFE_unverified", "copy_and_verify-ptr", "copy_and_verify_range", "index", "arrow", "copy_and_verify-value" };
          std::string kase = std::string("load|") + tnm + "|" + std::to_string(a) + "|" + str(g) + "|" + std::to_string(pat) + "|" + std::to_string(path);
          std::string sg = std::string("C07 op=load type=") + tnm + " path=" + pn[path];
          T got{};
          bool have = false;
          auto p = ptr_at<T>(a);
          Out o = guarded([&] {
            switch (path) {
              case 0: { tn<T> x = *p; got = x.UNSAFE_unverified(); have = true; break; }
              case 1: got = (*p).UNSAFE_unverified(); have = true; break;
              case 2: got = p.copy_and_verify([](std::unique_ptr<T> v) { return *v; }); have = true; break;
              case 3: got = p.copy_and_verify_range([](std::unique_ptr<T[]> v) { return v[0]; }, 1); have = true; break;
              case 4: { tn<T> x = p[0]; got = x.UNSAFE_unverified(); have = true; break; }
              case 5: got = p->UNSAFE_unverified(); have = true; break;
              case 6: got = p->copy_and_verify([](T v) { return v; }); have = true; break;
            }
          });
          n_eval++;
          if (a + w == kSize || !rep) n_nontriv++;
          if (o == O_CRASH) viol(sg + " kind=reads-past-object", kase, "load of a " + std::to_string(w) + "-byte guest object ending at offset " + std::to_string(a + w) + " faulted (read beyond the object / the region)");
          else if (rep) {
            if (o == O_ABORT) viol(sg + " kind=spurious-abort", kase, "representable pattern aborted");
            else if (have && mval(got) != g) viol(sg + " kind=decoding", kase, "guest bytes encode " + str(g) + " but the load returned " + str(mval(got)) + " (background 0x" + std::to_string(pat) + ")");
          } else if (o != O_ABORT) viol(sg + " kind=silent-truncation", kase, "guest value " + str(g) + " does not fit the application type, no abort");
        }
        // second element of a range / index 1: stride must be the guest width
        if (a + 2 * w <= kSize) {
          uint8_t b2[8];
          i128 g2 = fits(g / 2 + 1, w, sgn) ? g / 2 + 1 : 1;
          bool rep2 = true;
          if constexpr (!std::is_same_v<T, bool> && !std::is_enum_v<T>) rep2 = representable<T>(g2);
          if constexpr (std::is_same_v<T, bool>) g2 = 1;
          if constexpr (std::is_enum_v<T>) g2 = 7;
          enc_int(g2, w, b2);
          memcpy(g_mem + a + w, b2, w);
          if (rep && rep2) {
            auto p = ptr_at<T>(a);
            T e0{}, e1{}, i1{};
            Out o = guarded([&] {
              p.copy_and_verify_range([&](std::unique_ptr<T[]> v) { e0 = v[0]; e1 = v[1]; return 0; }, 2);
              tn<T> x = p[1];
              i1 = x.UNSAFE_unverified();
            });
            n_eval++;
            std::string kase = std::string("range2|") + tnm + "|" + std::to_string(a) + "|" + str(g) + "|" + std::to_string(pat) + "|0";
            if (o == O_CRASH) viol(std::string("C07 op=load type=") + tnm + " path=range2 kind=reads-past-object", kase, "two-element range ending at offset " + std::to_string(a + 2 * w) + " faulted");
            else if (o == O_ABORT) viol(std::string("C07 op=load type=") + tnm + " path=range2 kind=spurious-abort", kase, "aborted");
            else if (mval(e0) != g || mval(e1) != g2 || mval(i1) != g2)
              viol(std::string("C07 op=load type=") + tnm + " path=range2 kind=decoding", kase, "elements decode to " + str(mval(e0)) + "," + str(mval(e1)) + " / p[1]=" + str(mval(i1)) + " expected " + str(g) + "," + str(g2));
          }
        }
        restore(a, 2 * w);
      }
    }
  }
  setadd("types", tnm);
}

// ---- floating point ------------------------------------------------------------------------------
template<class T>
static void float_type(uint64_t& blk)
{
  const int w = sizeof(T);
  const char* tnm = std::is_same_v<T, float> ? "float" : "double";
  std::vector<T> vals = { (T)0.0, (T)1.5, (T)-2.25, (T)1e10, (T)-3.5e-7, std::numeric_limits<T>::max(), std::numeric_limits<T>::denorm_min() };
  for (uint64_t a : addresses(w)) {
    if (!mine(blk++)) continue;
    for (uint8_t pat : kPats) {
      set_bg(pat);
      for (T v : vals) {
        uint8_t want[8];
        memcpy(want, &v, w);
        auto p = ptr_at<T>(a);
        std::string kase = std::string("fstore|") + tnm + "|" + std::to_string(a) + "|" + std::to_string((double)v) + "|" + std::to_string(pat) + "|0";
        Out o = guarded([&] { *p = v; });
        n_eval++;
        std::string why;
        if (o != O_RET) viol(std::string("C07 op=store type=") + tnm + " kind=abort-or-crash", kase, "float store did not return");
        else if (!region_matches(a, w, want, why)) viol(std::string("C07 op=store type=") + tnm + " kind=bytes", kase, why);
        T got1{}, got2{}, got3{};
        o = guarded([&] {
          tn<T> x = *p;
          got1 = x.UNSAFE_unverified();
          got2 = p.copy_and_verify([](std::unique_ptr<T> u) { return *u; });
          got3 = p.copy_and_verify_range([](std::unique_ptr<T[]> u) { return u[0]; }, 1);
        });
        n_eval++;
        if (o == O_CRASH) viol(std::string("C07 op=load type=") + tnm + " kind=reads-past-object", kase, "float load faulted");
        else if (o == O_ABORT) viol(std::string("C07 op=load type=") + tnm + " kind=spurious-abort", kase, "float load aborted");
        else if (memcmp(&got1, &v, w) || memcmp(&got2, &v, w) || memcmp(&got3, &v, w)) viol(std::string("C07 op=load type=") + tnm + " kind=decoding", kase, "float bits changed");
        restore(a, w);
      }
    }
  }
  setadd("types", tnm);
}

// ---- pointers, function pointers, arrays, struct fields -----------------------------------------------
static void pointer_types(uint64_t& blk)
{
  auto* impl = g_sb->get_sandbox_impl();
  uint64_t fnrep = impl->fn_to_rep((const void*)&guest_gfn);
  for (uint64_t a : addresses(PW)) {
    if (!mine(blk++)) continue;
    for (uint8_t pat : kPats) {
      set_bg(pat);
      for (uint64_t target : { (uint64_t)0, (uint64_t)1, (uint64_t)0x1234, kSize - 1 }) {
        uint8_t want[8];
        enc_int((i128)target, PW, want);
        std::string kase = "ptr|int*|" + std::to_string(a) + "|" + std::to_string(target) + "|" + std::to_string(pat) + "|0";
        auto pp = ptr_at<int*>(a);
        tn<int*> tv = nullptr;
        if (target) tv.assign_raw_pointer(*g_sb, reinterpret_cast<int*>(g_base + target));
        Out o = guarded([&] { *pp = tv; });
        n_eval++;
        std::string why;
        if (o != O_RET) viol("C07 op=store type=int* kind=abort-or-crash", kase, "pointer store did not return");
        else if (!region_matches(a, PW, want, why)) viol("C07 op=store type=int* kind=bytes", kase, why);
        uintptr_t got = 1, got2 = 1;
        o = guarded([&] {
          tn<int*> x = *pp;
          got = reinterpret_cast<uintptr_t>(x.UNSAFE_unverified());
          got2 = reinterpret_cast<uintptr_t>(pp->UNSAFE_unverified());
        });
        n_eval++;
        uintptr_t wantaddr = target ? g_base + target : 0;
        if (o == O_CRASH) viol("C07 op=load type=int* kind=reads-past-object", kase, "pointer load faulted");
        else if (o == O_ABORT) viol("C07 op=load type=int* kind=spurious-abort", kase, "pointer load aborted");
        else if (got != wantaddr || got2 != wantaddr) viol("C07 op=load type=int* kind=decoding", kase, "pointer decoded wrongly");
        restore(a, PW);
      }
      // function pointer
      {
        uint8_t want[8];
        enc_int((i128)fnrep, PW, want);
        std::string kase = "ptr|fn|" + std::to_string(a) + "|0|" + std::to_string(pat) + "|0";
        auto pf = ptr_at<int (*)(long)>(a);
        auto tf = g_sb->get_sandbox_function_address(gfn);
        Out o = guarded([&] { *pf = tf; });
        n_eval++;
        std::string why;
        if (o != O_RET) viol("C07 op=store type=fnptr kind=abort-or-crash", kase, "function pointer store did not return");
        else if (!region_matches(a, PW, want, why)) viol("C07 op=store type=fnptr kind=bytes", kase, why);
        const void* got = nullptr;
        o = guarded([&] {
          tn<int (*)(long)> x = *pf;
          got = reinterpret_cast<const void*>(x.UNSAFE_unverified());
        });
        n_eval++;
        if (o != O_RET) viol("C07 op=load type=fnptr kind=abort-or-crash", kase, "function pointer load did not return");
        else if (got != (const void*)&guest_gfn) viol("C07 op=load type=fnptr kind=decoding", kase, "function pointer decoded wrongly");
        restore(a, PW);
      }
    }
  }
  // arrays: short[3] (guest 6 bytes), long[3] (guest 12 bytes), int*[2] (guest 4 bytes)
  for (uint64_t a : addresses(2 * PW > 12 ? 2 * PW : 12)) {
    if (!mine(blk++)) continue;
    for (uint8_t pat : kPats) {
      set_bg(pat);
      {
        tn<long[3]> arr;
        arr[0] = 0x11223344L;
        arr[1] = -2L;
        arr[2] = 0x7fffffffL;
        uint8_t want[12];
        enc_int(0x11223344, 4, want);
        enc_int(-2, 4, want + 4);
        enc_int(0x7fffffff, 4, want + 8);
        auto pa = ptr_at<long[3]>(a);
        std::string kase = "arr|long[3]|" + std::to_string(a) + "|0|" + std::to_string(pat) + "|0";
        Out o = guarded([&] { *pa = arr; });
        n_eval++;
        std::string why;
        if (o != O_RET) viol("C07 op=store type=long[3] kind=abort-or-crash", kase, "array store did not return");
        else if (!region_matches(a, 12, want, why)) viol("C07 op=store type=long[3] kind=bytes", kase, why);
        long g0 = 0, g1 = 0, g2 = 0, e1 = 0;
        o = guarded([&] {
          tn<long[3]> back = *pa;
          g0 = back[0].UNSAFE_unverified();
          g1 = back[1].UNSAFE_unverified();
          g2 = back[2].UNSAFE_unverified();
          tn<long> x = (*pa)[1];
          e1 = x.UNSAFE_unverified();
        });
        n_eval++;
        if (o == O_CRASH) viol("C07 op=load type=long[3] kind=reads-past-object", kase, "array load faulted (12-byte guest array ending at " + std::to_string(a + 12) + ")");
        else if (o == O_ABORT) viol("C07 op=load type=long[3] kind=spurious-abort", kase, "array load aborted");
        else if (g0 != 0x11223344L || g1 != -2 || g2 != 0x7fffffffL || e1 != -2) viol("C07 op=load type=long[3] kind=decoding", kase, "array elements decoded wrongly");
        // sandbox-to-sandbox copy of the whole array: exactly the 12 guest bytes move
        {
          restore(a, 12);
          uint64_t src = a < 0x8000 ? 0xC000 : 0x4000;
          decorate(src, want, 12);
          auto qa = ptr_at<long[3]>(src);
          o = guarded([&] { *pa = *qa; });
          undecorate(src, 12);
          n_eval++;
          if (a + 12 == kSize) n_nontriv++;
          if (o == O_CRASH) viol("C07 op=store type=long[3] form=tainted_volatile kind=crash", kase, "sandbox-to-sandbox array copy faulted (destination ends at " + std::to_string(a + 12) + ")");
          else if (o != O_RET) viol("C07 op=store type=long[3] form=tainted_volatile kind=spurious-abort", kase, "sandbox-to-sandbox array copy aborted");
          else if (!region_matches(a, 12, want, why)) viol("C07 op=store type=long[3] form=tainted_volatile kind=bytes", kase, why);
        }
        // element store
        o = guarded([&] { (*pa)[2] = 5L; });
        enc_int(5, 4, want + 8);
        if (o != O_RET || !region_matches(a, 12, want, why)) viol("C07 op=store type=long[3] kind=element-bytes", kase, "element store: " + why);
        // an element that does not fit the guest type aborts and leaves memory alone
        tn<long[3]> big;
        big[0] = 1;
        big[1] = 0x100000000L;
        big[2] = 3;
        restore(a, 12);
        o = guarded([&] { *pa = big; });
        n_eval++;
        n_nontriv++;
        if (o != O_ABORT) viol("C07 op=store type=long[3] kind=silent-truncation", kase, "element 2^32 does not fit a 32-bit guest long, store did not abort");
        restore(a, 12);
      }
      if (a + 24 <= kSize) {
        // a two-dimensional array whose element is narrower in the guest: all 2 x 3 elements move, 24 guest bytes
        tn<long[2][3]> arr2;
        uint8_t want2[24];
        for (int i = 0; i < 2; i++)
          for (int j = 0; j < 3; j++) {
            long v = (i * 3 + j) % 2 ? -(long)(100 + i * 3 + j) : 0x01020304L + i * 3 + j;
            arr2[i][j] = v;
            enc_int(v, 4, want2 + 4 * (i * 3 + j));
          }
        auto pa2 = ptr_at<long[2][3]>(a);
        std::string kase2 = "arr|long[2][3]|" + std::to_string(a) + "|0|" + std::to_string(pat) + "|0";
        Out o2 = guarded([&] { *pa2 = arr2; });
        n_eval++;
        std::string why2;
        if (o2 != O_RET) viol("C07 op=store type=long[2][3] kind=abort-or-crash", kase2, "2-D array store did not return");
        else if (!region_matches(a, 24, want2, why2)) viol("C07 op=store type=long[2][3] kind=bytes", kase2, why2);
        memcpy(g_mem + a, want2, 24);
        bool okv = true;
        o2 = guarded([&] {
          tn<long[2][3]> back = *pa2;
          for (int i = 0; i < 2; i++)
            for (int j = 0; j < 3; j++) {
              long v = (i * 3 + j) % 2 ? -(long)(100 + i * 3 + j) : 0x01020304L + i * 3 + j;
              if (back[i][j].UNSAFE_unverified() != v) okv = false;
              if ((*pa2)[i][j].UNSAFE_unverified() != v) okv = false;
            }
        });
        n_eval++;
        if (o2 != O_RET) viol("C07 op=load type=long[2][3] kind=abort-or-crash", kase2, "2-D array load did not return");
        else if (!okv) viol("C07 op=load type=long[2][3] kind=decoding", kase2, "an element of the 2-D array decoded wrongly");
        restore(a, 24);
      }
      {
        tn<int* [2]> arr;
        arr[0].assign_raw_pointer(*g_sb, reinterpret_cast<int*>(g_base + 0x2222));
        arr[1] = nullptr;
        uint8_t want[16];
        enc_int(0x2222, PW, want);
        enc_int(0, PW, want + PW);
        auto pa = ptr_at<int* [2]>(a);
        std::string kase = "arr|int*[2]|" + std::to_string(a) + "|0|" + std::to_string(pat) + "|0";
        Out o = guarded([&] { *pa = arr; });
        n_eval++;
        std::string why;
        if (o != O_RET) viol("C07 op=store type=int*[2] kind=abort-or-crash", kase, "array-of-pointers store did not return");
        else if (!region_matches(a, 2 * PW, want, why)) viol("C07 op=store type=int*[2] kind=bytes", kase, why);
        uintptr_t b0 = 1, b1 = 1;
        o = guarded([&] {
          tn<int* [2]> back = *pa;
          b0 = reinterpret_cast<uintptr_t>(back[0].UNSAFE_unverified());
          b1 = reinterpret_cast<uintptr_t>(back[1].UNSAFE_unverified());
        });
        n_eval++;
        if (o != O_RET) viol("C07 op=load type=int*[2] kind=abort-or-crash", kase, "array-of-pointers load did not return");
        else if (b0 != g_base + 0x2222 || b1 != 0) viol("C07 op=load type=int*[2] kind=decoding", kase, "array-of-pointers decoded wrongly");
        {
          restore(a, 2 * PW);
          uint64_t src = a < 0x8000 ? 0xC000 : 0x4000;
          decorate(src, want, 2 * PW);
          auto qa = ptr_at<int* [2]>(src);
          o = guarded([&] { *pa = *qa; });
          undecorate(src, 2 * PW);
          n_eval++;
          if (o == O_CRASH) viol("C07 op=store type=int*[2] form=tainted_volatile kind=crash", kase, "sandbox-to-sandbox array-of-pointers copy faulted");
          else if (o != O_RET) viol("C07 op=store type=int*[2] form=tainted_volatile kind=spurious-abort", kase, "sandbox-to-sandbox array-of-pointers copy aborted");
          else if (!region_matches(a, 2 * PW, want, why)) viol("C07 op=store type=int*[2] form=tainted_volatile kind=bytes", kase, why);
        }
        restore(a, 2 * PW);
      }
    }
  }
  // struct fields (object placed so that it ends on the last byte too)
  const uint64_t ssz = sizeof(VSG);
  std::vector<uint64_t> sas = { 8, 0x1000, kSize - ssz };
  for (uint64_t a : sas) {
    if (!mine(blk++)) continue;
    for (uint8_t pat : kPats) {
      set_bg(pat);
      auto ps = ptr_at<VS>(a);
      std::string kase = "struct|VS|" + std::to_string(a) + "|0|" + std::to_string(pat) + "|0";
      struct Fld
      {
        const char* n;
        uint64_t off;
        int w;
        i128 v;
      };
      Fld flds[] = { { "a", offsetof(VSG, a), 4, -123456 }, { "c", offsetof(VSG, c), 1, 'x' }, { "ll", offsetof(VSG, ll), 8, (i128)0x0102030405060708LL }, { "arr[1]", offsetof(VSG, arr) + 2, 2, -3 } };
      for (auto& f : flds) {
        uint8_t want[8];
        enc_int(f.v, f.w, want);
        Out o = guarded([&] {
          if (!strcmp(f.n, "a")) ps->a = (long)f.v;
          else if (!strcmp(f.n, "c")) ps->c = (char)f.v;
          else if (!strcmp(f.n, "ll")) ps->ll = (long long)f.v;
          else ps->arr[1] = (short)f.v;
        });
        n_eval++;
        std::string why;
        if (o != O_RET) viol(std::string("C07 op=store type=VS.") + f.n + " kind=abort-or-crash", kase, "field store did not return");
        else if (!region_matches(a + f.off, f.w, want, why)) viol(std::string("C07 op=store type=VS.") + f.n + " kind=bytes", kase, why);
        i128 got = 0;
        o = guarded([&] {
          if (!strcmp(f.n, "a")) got = ps->a.UNSAFE_unverified();
          else if (!strcmp(f.n, "c")) got = ps->c.UNSAFE_unverified();
          else if (!strcmp(f.n, "ll")) got = ps->ll.UNSAFE_unverified();
          else got = ps->arr[1].UNSAFE_unverified();
        });
        n_eval++;
        if (o != O_RET) viol(std::string("C07 op=load type=VS.") + f.n + " kind=abort-or-crash", kase, "field load did not return");
        else if (got != f.v) viol(std::string("C07 op=load type=VS.") + f.n + " kind=decoding", kase, "field decoded to " + str(got));
        restore(a + f.off, f.w);
      }
      // the whole object at once: loading it decodes every field from the guest image (pointer fields relative to THIS
      // region), storing it writes exactly the guest image
      {
        VSG img{};
        img.a = -123456;
        img.c = 'q';
        img.p = (PtrT)0x1234;
        img.ll = 0x0102030405060708LL;
        img.arr[0] = 1;
        img.arr[1] = -3;
        img.arr[2] = 32767;
        img.fn = (PtrT)fnrep;
        memcpy(g_mem + a, &img, sizeof img);
        uintptr_t gp = 1, gf = 1;
        long ga = 0;
        long long gll = 0;
        short g1 = 0;
        Out o = guarded([&] {
          tn<VS> v = *ps;
          gp = reinterpret_cast<uintptr_t>(v.p.UNSAFE_unverified());
          gf = reinterpret_cast<uintptr_t>(v.fn.UNSAFE_unverified());
          ga = v.a.UNSAFE_unverified();
          gll = v.ll.UNSAFE_unverified();
          g1 = v.arr[1].UNSAFE_unverified();
        });
        n_eval++;
        if (o != O_RET) viol("C07 op=load type=VS(whole) kind=abort-or-crash", kase, "whole-struct load did not return");
        else if (gp != g_base + 0x1234 || gf != reinterpret_cast<uintptr_t>(&guest_gfn) || ga != -123456 || gll != 0x0102030405060708LL || g1 != -3)
          viol("C07 op=load type=VS(whole) kind=decoding", kase, "whole-struct load decoded a field wrongly (pointer field -> " + std::to_string(gp - g_base) + " relative to the region, expected 4660)");
        // store it back somewhere else and compare the images
        uint64_t b = a < 0x8000 ? 0xA000 : 0x2000;
        std::string why;
        o = guarded([&] {
          tn<VS> v = *ps;
          auto pd = ptr_at<VS>(b);
          *pd = v;
        });
        n_eval++;
        if (o != O_RET) viol("C07 op=store type=VS(whole) kind=abort-or-crash", kase, "whole-struct store did not return");
        else {
          VSG back{};
          memcpy(&back, g_mem + b, sizeof back);
          if (back.a != img.a || back.c != img.c || back.p != img.p || back.ll != img.ll || back.arr[0] != img.arr[0] || back.arr[1] != img.arr[1] || back.arr[2] != img.arr[2] || back.fn != img.fn)
            viol("C07 op=store type=VS(whole) kind=bytes", kase, "whole-struct store wrote a field that differs from the guest image it was loaded from");
        }
        restore(a, sizeof img);
        restore(b, sizeof img);
      }
    }
  }
}

int main(int argc, char** argv)
{
  parse(argc, argv);
  g_thorough = has_flag("--thorough");
  struct sigaction sa;
  memset(&sa, 0, sizeof sa);
  sa.sa_sigaction = on_segv;
  sa.sa_flags = SA_SIGINFO | SA_NODEFER;
  sigaction(SIGSEGV, &sa, nullptr);
  sigaction(SIGBUS, &sa, nullptr);
  sbx_t sb;
  sb.create_sandbox(0);
  g_sb = &sb;
  g_base = sb.get_sandbox_impl()->base;
  g_mem = sb.get_sandbox_impl()->mem();
  if (g_args.replay) g_args.parts = 1; // replays re-run the (small) family of the failing type
  std::string only = g_args.replay ? split(g_args.replay, '|')[1] : "";
  uint64_t blk = 0;
#define IT(T)                                                                                                      \
  if (only.empty() || only == gw<T>::n) int_type<T>(blk);
#ifdef C07_A
  IT(bool) IT(char) IT(signed char) IT(unsigned char) IT(short) IT(unsigned short) IT(char16_t)
#endif
#ifdef C07_B
  IT(int) IT(unsigned) IT(long) IT(unsigned long) IT(E4) IT(EL) IT(char32_t)
#endif
#ifdef C07_C
  IT(long long) IT(unsigned long long)
  if (only.empty() || only == "float") float_type<float>(blk);
  if (only.empty() || only == "double") float_type<double>(blk);
#endif
#if (defined(C07_C) && !defined(C07_WIDE)) || defined(C07_D)
  if (only.empty() || only == "int*" || only == "fn" || only == "long[3]" || only == "long[2][3]" || only == "int*[2]" || only == "VS") pointer_types(blk);
#endif
  stat("evaluations", n_eval);
  stat("nontrivial", n_nontriv);
  sample("{\"op\":\"store\",\"type\":\"long\",\"address\":65532,\"value\":-2,\"background\":\"0xA5\",\"oracle\":\"bytes 65532..65535 = fe ff ff ff, every other byte of the 64 KiB region = a5\"}", 1);
  finish();
  return 0;
}
