// Prelude of the engine-G probe programs: RLBox over the mbox lp32 model backend with the library's
// compile-time checks ON (no RLBOX_NO_COMPILE_CHECKS), one registered struct, and the classification
// traits the probes static_assert on. Precompiled once per run from the tree under test.
#pragma once
#define RLBOX_USE_EXCEPTIONS
#define RLBOX_USE_STATIC_CALLS() mbox_lookup_symbol
#include "rlbox.hpp"
#include "mbox.hpp"
#include "vstruct.hpp"
#include <array>
#include <string>
#include <type_traits>
rlbox_load_structs_from_library(vlib);

// pointer representation of the model backend: 16-bit by default; engine G reruns grids with -DG_PTR_T=uint64_t
// (pointer-wide representation: same size as a host pointer, so width-keyed shortcuts in the library are reachable)
#ifndef G_PTR_T
#  define G_PTR_T uint16_t
#endif
using Cfg = mb::cfg<G_PTR_T, mb::abi_lp32, mb::MASK, 4, false, 16>;
using SB = mb::mbox<Cfg>;
using sbx_t = rlbox::rlbox_sandbox<SB>;
template<class T>
using tn = rlbox::tainted<T, SB>;
template<class T>
using tv = rlbox::tainted_volatile<T, SB>;
template<class T>
using to = rlbox::tainted_opaque<T, SB>;
template<class T>
using scb = rlbox::sandbox_callback<T, SB>;
template<class T>
using app = rlbox::app_pointer<T, SB>;
using hb_t = rlbox::tainted_boolean_hint;
using hi_t = rlbox::tainted_int_hint;

// a second, different sandbox type (for "wrapper of another sandbox type")
using Cfg2 = mb::cfg<uint16_t, mb::abi_wide, mb::MASK, 4>;
using SB2 = mb::mbox<Cfg2>;
template<class T>
using tn2 = rlbox::tainted<T, SB2>;
template<class T>
using to2 = rlbox::tainted_opaque<T, SB2>;
template<class T>
using scb2 = rlbox::sandbox_callback<T, SB2>;

enum UE
{
  UE_A,
  UE_B
};
enum class SE
{
  A,
  B
};
// enumerations with a 64-bit underlying type (same width under every model ABI)
enum U64E : unsigned long long
{
  U64E_A = 0,
  U64E_B = 0x1122334455667788ull
};
enum S64E : long long
{
  S64E_A = 0,
  S64E_B = -0x1122334455667788ll
};

namespace verif {
template<class T>
struct strip
{
  using type = T;
};
template<class T>
struct strip<T*> : strip<T>
{};
template<class T>
struct strip<T&> : strip<T>
{};
template<class T>
struct strip<T&&> : strip<T>
{};
template<class T>
struct strip<const T> : strip<T>
{};
template<class T>
struct strip<volatile T> : strip<T>
{};
template<class T>
struct strip<const volatile T> : strip<T>
{};
template<class T, size_t N>
struct strip<T[N]> : strip<T>
{};
template<class T>
struct strip<T[]> : strip<T>
{};
template<class T, size_t N>
struct strip<std::array<T, N>> : strip<T>
{};
template<class T>
struct is_wrapper_class : std::false_type
{};
template<class T, class S>
struct is_wrapper_class<rlbox::tainted<T, S>> : std::true_type
{};
template<class T, class S>
struct is_wrapper_class<rlbox::tainted_volatile<T, S>> : std::true_type
{};
template<class T, class S>
struct is_wrapper_class<rlbox::tainted_opaque<T, S>> : std::true_type
{};
template<class T, class S>
struct is_wrapper_class<rlbox::sandbox_callback<T, S>> : std::true_type
{};
template<class T, class S>
struct is_wrapper_class<rlbox::app_pointer<T, S>> : std::true_type
{};
template<>
struct is_wrapper_class<rlbox::tainted_boolean_hint> : std::true_type
{};
template<>
struct is_wrapper_class<rlbox::tainted_int_hint> : std::true_type
{};
// "wrapped": after removing references, cv, pointers and array extents it is a wrapper class, a hint or void
template<class T>
constexpr bool wrapped = is_wrapper_class<typename strip<T>::type>::value || std::is_void_v<typename strip<T>::type>;
template<class T>
constexpr bool is_hint = std::is_same_v<std::remove_cv_t<std::remove_reference_t<T>>, rlbox::tainted_boolean_hint>;
template<class T>
constexpr bool is_tainted = rlbox::detail::rlbox_is_tainted_v<std::remove_cv_t<std::remove_reference_t<T>>>;
}

// EXPR form: compiles and yields a wrapped type -> fine; yields a plain type -> marker VERIF_PLAIN_RESULT
#define VERIF_EXPR(...)                                                                                            \
  {                                                                                                                \
    auto&& verif_r_ = (__VA_ARGS__);                                                                               \
    (void)verif_r_;                                                                                                \
    static_assert(verif::wrapped<decltype((__VA_ARGS__))>, "VERIF_PLAIN_RESULT");                                   \
  }
// evaluation only (no classification)
#define VERIF_EVAL(...)                                                                                            \
  {                                                                                                                \
    auto&& verif_r_ = (__VA_ARGS__);                                                                               \
    (void)verif_r_;                                                                                                \
  }
// comparison form: must be exactly a tainted_boolean_hint
#define VERIF_HINT(...)                                                                                            \
  {                                                                                                                \
    auto&& verif_r_ = (__VA_ARGS__);                                                                               \
    (void)verif_r_;                                                                                                \
    static_assert(verif::is_hint<decltype((__VA_ARGS__))>, "VERIF_NOT_A_HINT");                                     \
  }
// result of a library routine that compares sandbox memory: must be exactly a tainted_int_hint
#define VERIF_INT_HINT(...)                                                                                        \
  {                                                                                                                \
    auto&& verif_r_ = (__VA_ARGS__);                                                                               \
    (void)verif_r_;                                                                                                \
    static_assert(std::is_same_v<std::remove_cv_t<std::remove_reference_t<decltype((__VA_ARGS__))>>, rlbox::tainted_int_hint>, "VERIF_NOT_AN_INT_HINT"); \
  }
// result must still be tainted<...>
#define VERIF_TAINTED(...)                                                                                         \
  {                                                                                                                \
    auto&& verif_r_ = (__VA_ARGS__);                                                                               \
    (void)verif_r_;                                                                                                \
    static_assert(verif::is_tainted<decltype((__VA_ARGS__))>, "VERIF_NOT_TAINTED");                                 \
  }

// plain sinks
void take_int(int);
void take_long(long);
void take_bool(bool);
void take_double(double);
void take_vptr(void*);
void take_cvptr(const void*);
void take_varargs(int, ...);
template<class T>
void take_T(T);

// guest prototypes for invoke shapes
int g_take_int(int);
int g_take_ptr(int*);
int g_take_fn(int (*)(long));
int g_take_struct(VS);
long g_ret_long();
int gfn(long);
static int32_t guest_g_take_int(int32_t) { return 0; }
static int32_t guest_g_take_ptr(G_PTR_T) { return 0; }
static int32_t guest_g_take_fn(G_PTR_T) { return 0; }
static int32_t guest_g_take_struct(rlbox::Sbx_vlib_VS<SB>) { return 0; }
static int32_t guest_g_ret_long() { return 0; }
static int32_t guest_gfn(int32_t) { return 0; }
