// C11 (histories) — symbol addresses looked up for one sandbox instance are never used for another; the
// tainted address of a sandbox function is stable and converts to the same guest representation before
// and after invoking it; a re-created instance bound to another library runs the new library.
// Engine H: BFS over histories on three instances bound to libraries exporting the same names.
#if !defined(BK_DYLIB)
#  define BK_MBOX
#  define BK_BYNAME
#endif
// C11H_INTERNAL: the model backend declares needs_internal_lookup_symbol (function addresses are an internal representation
// distinct from the invocation pointer)
#include "backends.hpp"
#include "vcommon.hpp"
#include <csetjmp>
#include <csignal>
#include <deque>
#include <unordered_set>
#ifdef BK_DYLIB
#  include <dlfcn.h>
#endif
using namespace vc;

#ifdef BK_MBOX
static long g_calls[3][4];
static g_int guest_lib_id_L1() { g_calls[SB::current()->index][0]++; return 1; }
static g_int guest_lib_id_L2() { g_calls[SB::current()->index][0]++; return 2; }
static g_int guest_lib_id2_L1() { g_calls[SB::current()->index][3]++; return 11; }
static g_int guest_lib_id2_L2() { g_calls[SB::current()->index][3]++; return 12; }
static g_long guest_add3_L1(g_long a, g_int b, g_short c) { g_calls[SB::current()->index][1]++; return (g_long)(a + b + c + 1000); }
static g_long guest_add3_L2(g_long a, g_int b, g_short c) { g_calls[SB::current()->index][1]++; return (g_long)(a + b + c + 2000); }
static g_int guest_inc1_L1(g_int v) { g_calls[SB::current()->index][2]++; return v + 1; }
static g_int guest_inc1_L2(g_int v) { g_calls[SB::current()->index][2]++; return v + 2; }
int inc1(int v);
static void* symtab(int lib, const char* name)
{
  if (!strcmp(name, "lib_id")) return lib == 2 ? (void*)&guest_lib_id_L2 : (void*)&guest_lib_id_L1;
  if (!strcmp(name, "lib_id2")) return lib == 2 ? (void*)&guest_lib_id2_L2 : (void*)&guest_lib_id2_L1;
  if (!strcmp(name, "add3")) return lib == 2 ? (void*)&guest_add3_L2 : (void*)&guest_add3_L1;
  if (!strcmp(name, "inc1")) return lib == 2 ? (void*)&guest_inc1_L2 : (void*)&guest_inc1_L1;
  if (!strcmp(name, "call_cb_n")) return (void*)&guest_call_cb_n;
  return nullptr;
}
static long calls_of(sbx_t&, int inst, int which) { return g_calls[inst][which]; }
#else
static long calls_of(sbx_t& sb, int, int which)
{
  // counters live inside each instance's own copy of the shared object
  return sb.invoke_sandbox_function(ncalls, which == 0 ? 1 : which == 1 ? 2 : 3).UNSAFE_unverified();
}
#endif

struct Op
{
  char k; // c/m nested call chain through callbacks into instance (i+1)%3 (m: callback handle obtained by move assignment), i invoke lib_id, g invoke add3, a take address of inc1, p pass that address back through the sandbox, d destroy, 1/2 create with library 1/2
  int i;
};
static std::string ops(const Op& o) { return std::string(1, o.k) + std::to_string(o.i); }
struct World
{
  sbx_t s[3];
  bool live[3] = { false, false, false };
  int lib[3] = { 0, 0, 0 };
  int inc[3] = { 0, 0, 0 };
  const void* addr[3] = { nullptr, nullptr, nullptr }; // address of inc1 obtained in the current incarnation
  long rep[3] = { -1, -1, -1 };
  // summary of the lookup history per object, across incarnations (part of the dedupe key: a cache that a change adds to the
  // library is not among the fields the key reads, so states that differ only there must not be merged)
  char last[3] = { '-', '-', '-' };   // the lookup-ish operation applied last (this or an earlier incarnation)
  bool earlier[3] = { false, false, false }; // some lookup happened in an earlier incarnation
  bool cur[3] = { false, false, false };     // some lookup happened in this incarnation
  std::string hist;
};
static long long n_states = 0, n_trans = 0, n_eval = 0, n_nontriv = 0;
// --- nested call chains (ops 'c' and 'm'): an invocation on instance i whose callback, while it runs, invokes on instance j=(i+1)%3
// a function that calls back into the application again; afterwards the outer guest function calls the outer callback once more.
struct World;
static World* g_w = nullptr;
static int g_outer = -1;
static std::string g_cberr;
static std::vector<std::string> g_cbtrace;
static tn<int> cb_inner(sbx_t& s, tn<int> v);
static tn<int> cb_outer(sbx_t& s, tn<int> v);
static void nested_op(World& w, int i, bool moved, const std::string& kase);
static std::string sg(const char* op, const char* kind) { return std::string("C11 part=history backend=") + bk_name + " op=" + op + " kind=" + kind; }

static bool apply(World& w, const Op& op)
{
  int i = op.i;
  auto& sb = w.s[i];
  std::string kase = std::string(bk_name) + "|" + w.hist + " " + ops(op);
  n_trans++;
  long long before = g_nviol;
  switch (op.k) {
    case '1':
    case '2': {
      if (w.live[i]) return true;
      int lib = op.k - '0';
      bk_create(sb, i, lib);
      w.live[i] = true;
      w.lib[i] = lib;
      w.inc[i]++;
      w.addr[i] = nullptr;
      w.rep[i] = -1;
      if (w.cur[i]) w.earlier[i] = true;
      w.cur[i] = false;
      break;
    }
    case 'd':
      if (!w.live[i]) return true;
      sb.destroy_sandbox();
      w.live[i] = false;
      break;
    case 'i': {
      if (!w.live[i]) return true;
      long c0 = calls_of(sb, i, 0);
      int r = -1;
      auto o = attempt([&] { r = sb.invoke_sandbox_function(lib_id).UNSAFE_unverified(); });
      long c1 = calls_of(sb, i, 0);
      n_eval++;
      n_nontriv++;
      if (o != RET) viol(sg("invoke", "abort"), kase, "invoke by name aborted");
      else if (r != w.lib[i]) viol(sg("invoke", "other-library"), kase, "instance " + std::to_string(i) + " is bound to library " + std::to_string(w.lib[i]) + " but lib_id() ran library " + std::to_string(r) + "'s function");
      else if (c1 - c0 != 1) viol(sg("invoke", "call-count"), kase, "guest function of this instance ran " + std::to_string(c1 - c0) + " times");
      break;
    }
    case 'j': {
      if (!w.live[i]) return true;
      int r = -1;
      auto o = attempt([&] { r = sb.invoke_sandbox_function(lib_id2).UNSAFE_unverified(); });
      n_eval++;
      if (o != RET || r != 10 + w.lib[i]) viol(sg("invoke", "other-function"), kase, "lib_id2() on instance " + std::to_string(i) + " returned " + std::to_string(r) + ": a different function than the named one ran");
      break;
    }
    case 'g': {
      if (!w.live[i]) return true;
      long c0 = calls_of(sb, i, 1);
      long r = -1;
      auto o = attempt([&] { r = sb.invoke_sandbox_function(add3, 5L, 6, (short)7).UNSAFE_unverified(); });
      long c1 = calls_of(sb, i, 1);
      n_eval++;
      if (o != RET || r != 18 + 1000 * w.lib[i]) viol(sg("invoke", "other-library"), kase, "add3 on instance " + std::to_string(i) + " (library " + std::to_string(w.lib[i]) + ") returned " + std::to_string(r));
      else if (c1 - c0 != 1) viol(sg("invoke", "call-count"), kase, "add3 ran " + std::to_string(c1 - c0) + " times in this instance");
      break;
    }
    case 'n': {
      // invoke the SAME name whose address is taken by 'a' / 'p'
      if (!w.live[i]) return true;
      int r = -1;
      auto o = attempt([&] { r = sb.invoke_sandbox_function(inc1, 5).UNSAFE_unverified(); });
      n_eval++;
      n_nontriv++;
      if (o != RET) viol(sg("invoke-addressed-name", "abort"), kase, "invoking inc1 by name aborted (its address " + std::string(w.addr[i] ? "had" : "had not") + " been taken before)");
      else if (r != 5 + w.lib[i]) viol(sg("invoke-addressed-name", "other-function"), kase, "inc1(5) on instance " + std::to_string(i) + " returned " + std::to_string(r));
      break;
    }
    case 'a': {
      if (!w.live[i]) return true;
      const void* a = nullptr;
      auto o = attempt([&] { a = (const void*)sb.get_sandbox_function_address(inc1).UNSAFE_unverified(); });
      n_eval++;
      if (o != RET || !a) {
        viol(sg("function-address", "abort"), kase, "get_sandbox_function_address failed");
        break;
      }
#ifdef BK_MBOX
#  ifdef MBOX_INTERNAL_LOOKUP
      const void* want_a = SB::tag_internal(symtab(w.lib[i], "inc1"));
#  else
      const void* want_a = symtab(w.lib[i], "inc1");
#  endif
      if (a != want_a) viol(sg("function-address", SB::untag_or_same(a) == SB::untag_or_same(want_a) ? "invocation-pointer-instead-of-address" : "other-library"), kase, std::string("address of inc1 on instance ") + std::to_string(i) + (SB::untag_or_same(a) == SB::untag_or_same(want_a) ? " is not the backend's function-address representation (the invocation pointer was handed out instead)" : " is another library's function"));
#else
      Dl_info di;
      char want[64];
      snprintf(want, sizeof want, "libguest_%d_%d.so", w.lib[i], i);
      if (!dladdr(a, &di) || !di.dli_fname || !strstr(di.dli_fname, want)) viol(sg("function-address", "other-library"), kase, std::string("address of inc1 lies in ") + (di.dli_fname ? di.dli_fname : "?") + " expected " + want);
#endif
      if (w.addr[i] && w.addr[i] != a) viol(sg("function-address", "unstable"), kase, "address of the same sandbox function changed within one incarnation");
      w.addr[i] = a;
      break;
    }
    case 'c':
    case 'm':
      if (!w.live[i]) return true;
      nested_op(w, i, op.k == 'm', kase);
      break;
    case 'p': {
      if (!w.live[i]) return true;
      int r = -1;
      auto o = attempt([&] {
        auto fa = sb.get_sandbox_function_address(inc1);
        r = sb.invoke_sandbox_function(call_cb_n, fa, 10, 1).UNSAFE_unverified();
      });
      n_eval++;
      n_nontriv++;
      if (o != RET || r != 10 + w.lib[i]) viol(sg("pass-function-address", "other-function"), kase, "instance " + std::to_string(i) + ": the sandbox function address passed back as an argument called something returning " + std::to_string(r) + " (expected inc1 of library " + std::to_string(w.lib[i]) + ")");
      break;
    }
  }
  if (w.live[i] && strchr("ijgnapcm", op.k)) {
    w.last[i] = op.k;
    w.cur[i] = true;
  }
  w.hist += (w.hist.empty() ? "" : " ") + ops(op);
  return g_nviol == before;
}
static tn<int> cb_inner(sbx_t& s, tn<int> v)
{
  int j = (g_outer + 1) % 3;
  int x = v.UNSAFE_unverified();
  g_cbtrace.push_back("inner" + std::to_string(x));
  if (&s != &g_w->s[j]) g_cberr += "inner callback of instance " + std::to_string(j) + " received another sandbox object; ";
  return x + 1000 * (j + 1);
}
static tn<int> cb_outer(sbx_t& s, tn<int> v)
{
  int i = g_outer, j = (i + 1) % 3;
  int x = v.UNSAFE_unverified();
  g_cbtrace.push_back("outer" + std::to_string(x));
  if (&s != &g_w->s[i]) g_cberr += "outer callback of instance " + std::to_string(i) + " received another sandbox object; ";
  if (g_w->live[j]) {
    auto& sj = g_w->s[j];
    // nested: a function of instance j that calls back into the application, then a plain function of j, then one of i itself
    auto cbj = sj.register_callback(cb_inner);
    int r = sj.invoke_sandbox_function(call_cb_n, cbj, x + 1, 1).UNSAFE_unverified();
    if (r != x + 1 + 1000 * (j + 1)) g_cberr += "nested call_cb_n on instance " + std::to_string(j) + " returned " + std::to_string(r) + "; ";
    int r2 = sj.invoke_sandbox_function(inc1, x).UNSAFE_unverified();
    if (r2 != x + g_w->lib[j]) g_cberr += "nested inc1 on instance " + std::to_string(j) + " (library " + std::to_string(g_w->lib[j]) + ") returned " + std::to_string(r2) + "; ";
    cbj.unregister();
  }
  int r3 = g_w->s[i].invoke_sandbox_function(inc1, x).UNSAFE_unverified();
  if (r3 != x + g_w->lib[i]) g_cberr += "re-entrant inc1 on instance " + std::to_string(i) + " (library " + std::to_string(g_w->lib[i]) + ") returned " + std::to_string(r3) + "; ";
  return x + 100 * (i + 1);
}
// a jump through an empty or foreign entry point ends in SIGSEGV: reported as a violation of this history, which ends there
static sigjmp_buf g_jb;
static volatile sig_atomic_t g_armed = 0;
static bool g_crashed = false;
static void on_segv(int)
{
  if (g_armed) siglongjmp(g_jb, 1);
  _exit(139);
}
static void nested_op(World& w, int i, bool moved, const std::string& kase)
{
  auto& sb = w.s[i];
  int j = (i + 1) % 3;
  g_w = &w;
  g_outer = i;
  g_cberr.clear();
  g_cbtrace.clear();
  int r = -1;
  long ci0 = calls_of(sb, i, 2), cj0 = w.live[j] ? calls_of(w.s[j], j, 2) : 0;
  if (sigsetjmp(g_jb, 1)) {
    g_armed = 0;
    g_crashed = true;
    std::string tr;
    for (auto& t : g_cbtrace) tr += t + " ";
    viol(sg(moved ? "nested-chain-moved-handle" : "nested-chain", "crash"), kase, "the call chain crashed (SIGSEGV / SIGBUS); callbacks that had run: [" + tr + "] " + g_cberr);
    g_w = nullptr;
    return;
  }
  g_armed = 1;
  auto o = attempt([&] {
    auto cb0 = sb.register_callback(cb_outer);
    if (moved) {
      // the handle that is passed got its registration by move assignment (twice), the source handles are left empty
      decltype(cb0) cb1, cb2;
      cb1 = std::move(cb0);
      cb2 = std::move(cb1);
      r = sb.invoke_sandbox_function(call_cb_n, cb2, 10, 2).UNSAFE_unverified();
    } else {
      r = sb.invoke_sandbox_function(call_cb_n, cb0, 10, 2).UNSAFE_unverified();
    }
  });
  g_armed = 0;
  long ci1 = calls_of(sb, i, 2), cj1 = w.live[j] ? calls_of(w.s[j], j, 2) : 0;
  n_eval++;
  n_nontriv++;
  const char* opn = moved ? "nested-chain-moved-handle" : "nested-chain";
  int want = 10 + 11 + 200 * (i + 1);
  std::string tr;
  for (auto& t : g_cbtrace) tr += t + " ";
  std::string wtr = w.live[j] ? "outer10 inner11 outer11 inner12 " : "outer10 outer11 ";
  if (o != RET) viol(sg(opn, "abort"), kase, "invocation with a callback that itself invokes on instance " + std::to_string(j) + " aborted; callbacks that ran: " + tr + g_cberr);
  else if (!g_cberr.empty()) viol(sg(opn, "inner-call-unfaithful"), kase, g_cberr);
  else if (tr != wtr) viol(sg(opn, "callback-sequence"), kase, "callbacks ran as [" + tr + "] expected [" + wtr + "]");
  else if (r != want) viol(sg(opn, "result"), kase, "call_cb_n(outer,10,2) on instance " + std::to_string(i) + " returned " + std::to_string(r) + " expected " + std::to_string(want));
  else if (ci1 - ci0 != 2 || (w.live[j] && cj1 - cj0 != 2)) viol(sg(opn, "call-count"), kase, "inc1 ran " + std::to_string(ci1 - ci0) + " times in instance " + std::to_string(i) + " and " + std::to_string(cj1 - cj0) + " times in instance " + std::to_string(j) + " (expected 2 and 2)");
  g_w = nullptr;
}
static void teardown(World& w)
{
  if (g_crashed) {
    // the objects of a crashed history are abandoned, not destroyed (their state is whatever the crash left)
    g_crashed = false;
    for (int i = 0; i < 3; i++) new (&w.s[i]) sbx_t();
    return;
  }
  for (int i = 0; i < 3; i++)
    if (w.live[i]) {
      try {
        w.s[i].destroy_sandbox();
      } catch (...) {
      }
    }
}
// second symbol cache (addresses handed out as tainted function pointers), if the tree under test has one
template<class S, class = void>
struct cache2
{
  static size_t size(S&) { return 0; }
};
template<class S>
struct cache2<S, std::void_t<decltype(std::declval<S&>().internal_func_ptr_map)>>
{
  static size_t size(S& s)
  {
    // content hash: names and cached addresses
    size_t h = s.internal_func_ptr_map.size();
    for (auto& e : s.internal_func_ptr_map) h = h * 1000003u + std::hash<std::string>{}(e.first) * 31u + reinterpret_cast<uintptr_t>(e.second);
    return h;
  }
};
static size_t cache2_size(sbx_t& s) { return cache2<sbx_t>::size(s); }
static std::string key(World& w)
{
  std::string k;
  for (int i = 0; i < 3; i++) {
    k += std::to_string(w.live[i]) + std::to_string(w.lib[i]) + (w.addr[i] ? "a" : "-") + w.last[i] + (w.earlier[i] ? "E" : "e");
    // the symbol cache(s), by content: which names are cached (merging states that differ here hid the order "invoke, then take the address")
    for (auto& e : w.s[i].func_ptr_map) k += "," + e.first + "=" + std::to_string(reinterpret_cast<uintptr_t>(e.second));
    k += "/" + std::to_string(cache2_size(w.s[i]));
    k += ";";
  }
  return k;
}

int main(int argc, char** argv)
{
  parse(argc, argv);
  bool thorough = has_flag("--thorough");
#ifdef BK_MBOX
  mb::g_symtab = symtab;
#endif
  {
    struct sigaction sa;
    memset(&sa, 0, sizeof sa);
    sa.sa_handler = on_segv;
    sa.sa_flags = SA_NODEFER;
    sigaction(SIGSEGV, &sa, nullptr);
    sigaction(SIGBUS, &sa, nullptr);
  }
  std::vector<Op> alpha;
  for (int i = 0; i < 3; i++)
    for (char k : { '1', '2', 'd', 'i', 'j', 'g', 'a', 'p', 'n', 'c', 'm' }) alpha.push_back({ k, i });
  if (g_args.replay) {
    auto f = split(g_args.replay, '|');
    if (f[0] == bk_name) {
      World w;
      for (auto& t : split(f[1], ' '))
        if (t.size() == 2 && !apply(w, { t[0], t[1] - '0' })) break;
      teardown(w);
    }
    stat("evaluations", n_eval);
    finish();
    return 0;
  }
  int depth = thorough ? 6 : 5;
  std::deque<std::vector<Op>> frontier;
  std::unordered_set<std::string> seen;
  frontier.push_back({});
  seen.insert("init");
  uint64_t idx = 0;
  while (!frontier.empty()) {
    auto h = std::move(frontier.front());
    frontier.pop_front();
    n_states++;
    if ((int)h.size() >= depth) continue;
    if (expired()) break;
    for (auto& op : alpha) {
      if (!mine(idx++) && false) continue;
      auto h2 = h;
      h2.push_back(op);
      World w;
      bool ok = true;
      for (auto& o2 : h2)
        if (!apply(w, o2)) {
          ok = false;
          break;
        }
      if (ok) {
        auto k = key(w);
        if (seen.insert(k).second) frontier.push_back(h2);
      }
      teardown(w);
    }
  }
  stat("states", n_states);
  stat("transitions", n_trans);
  stat("traces", n_trans);
  stat("evaluations", n_eval);
  stat("nontrivial", n_nontriv);
  sample(std::string("{\"backend\":\"") + bk_name + "\",\"history\":\"10 i0 d0 20 i0\",\"meaning\":\"create instance 0 with library 1, invoke lib_id, destroy, create with library 2, invoke lib_id -> must run library 2\"}", 1);
  finish(expired());
  return 0;
}
