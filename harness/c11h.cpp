// C11 (histories) — symbol addresses looked up for one sandbox instance are never used for another; the
// tainted address of a sandbox function is stable and converts to the same guest representation before
// and after invoking it; a re-created instance bound to another library runs the new library.
// Engine H: BFS over histories on three instances bound to libraries exporting the same names.
#if !defined(BK_DYLIB)
#  define BK_MBOX
#  define BK_BYNAME
#endif
// C11H_INTERNAL: the model backend declares needs_internal_lookup_symbol (function addresses are an internal representation
// distinct from the invocation pointer)
#include "backends.hpp"
#include "vcommon.hpp"
#include <deque>
#include <unordered_set>
#ifdef BK_DYLIB
#  include <dlfcn.h>
#endif
using namespace vc;

#ifdef BK_MBOX
static long g_calls[3][4];
static g_int guest_lib_id_L1() { g_calls[SB::current()->index][0]++; return 1; }
static g_int guest_lib_id_L2() { g_calls[SB::current()->index][0]++; return 2; }
static g_int guest_lib_id2_L1() { g_calls[SB::current()->index][3]++; return 11; }
static g_int guest_lib_id2_L2() { g_calls[SB::current()->index][3]++; return 12; }
static g_long guest_add3_L1(g_long a, g_int b, g_short c) { g_calls[SB::current()->index][1]++; return (g_long)(a + b + c + 1000); }
static g_long guest_add3_L2(g_long a, g_int b, g_short c) { g_calls[SB::current()->index][1]++; return (g_long)(a + b + c + 2000); }
static g_int guest_inc1_L1(g_int v) { g_calls[SB::current()->index][2]++; return v + 1; }
static g_int guest_inc1_L2(g_int v) { g_calls[SB::current()->index][2]++; return v + 2; }
int inc1(int v);
static void* symtab(int lib, const char* name)
{
  if (!strcmp(name, "lib_id")) return lib == 2 ? (void*)&guest_lib_id_L2 : (void*)&guest_lib_id_L1;
  if (!strcmp(name, "lib_id2")) return lib == 2 ? (void*)&guest_lib_id2_L2 : (void*)&guest_lib_id2_L1;
  if (!strcmp(name, "add3")) return lib == 2 ? (void*)&guest_add3_L2 : (void*)&guest_add3_L1;
  if (!strcmp(name, "inc1")) return lib == 2 ? (void*)&guest_inc1_L2 : (void*)&guest_inc1_L1;
  if (!strcmp(name, "call_cb_n")) return (void*)&guest_call_cb_n;
  return nullptr;
}
static long calls_of(sbx_t&, int inst, int which) { return g_calls[inst][which]; }
#else
static long calls_of(sbx_t& sb, int, int which)
{
  // counters live inside each instance's own copy of the shared object
  return sb.invoke_sandbox_function(ncalls, which == 0 ? 1 : which == 1 ? 2 : 3).UNSAFE_unverified();
}
#endif

struct Op
{
  char k; // i invoke lib_id, g invoke add3, a take address of inc1, p pass that address back through the sandbox, d destroy, 1/2 create with library 1/2
  int i;
};
static std::string ops(const Op& o) { return std::string(1, o.k) + std::to_string(o.i); }
struct World
{
  sbx_t s[3];
  bool live[3] = { false, false, false };
  int lib[3] = { 0, 0, 0 };
  int inc[3] = { 0, 0, 0 };
  const void* addr[3] = { nullptr, nullptr, nullptr }; // address of inc1 obtained in the current incarnation
  long rep[3] = { -1, -1, -1 };
  // summary of the lookup history per object, across incarnations (part of the dedupe key: a cache that a change adds to the
  // library is not among the fields the key reads, so states that differ only there must not be merged)
  char last[3] = { '-', '-', '-' };   // the lookup-ish operation applied last (this or an earlier incarnation)
  bool earlier[3] = { false, false, false }; // some lookup happened in an earlier incarnation
  bool cur[3] = { false, false, false };     // some lookup happened in this incarnation
  std::string hist;
};
static long long n_states = 0, n_trans = 0, n_eval = 0, n_nontriv = 0;
static std::string sg(const char* op, const char* kind) { return std::string("C11 part=history backend=") + bk_name + " op=" + op + " kind=" + kind; }

static bool apply(World& w, const Op& op)
{
  int i = op.i;
  auto& sb = w.s[i];
  std::string kase = std::string(bk_name) + "|" + w.hist + " " + ops(op);
  n_trans++;
  long long before = g_nviol;
  switch (op.k) {
    case '1':
    case '2': {
      if (w.live[i]) return true;
      int lib = op.k - '0';
      bk_create(sb, i, lib);
      w.live[i] = true;
      w.lib[i] = lib;
      w.inc[i]++;
      w.addr[i] = nullptr;
      w.rep[i] = -1;
      if (w.cur[i]) w.earlier[i] = true;
      w.cur[i] = false;
      break;
    }
    case 'd':
      if (!w.live[i]) return true;
      sb.destroy_sandbox();
      w.live[i] = false;
      break;
    case 'i': {
      if (!w.live[i]) return true;
      long c0 = calls_of(sb, i, 0);
      int r = -1;
      auto o = attempt([&] { r = sb.invoke_sandbox_function(lib_id).UNSAFE_unverified(); });
      long c1 = calls_of(sb, i, 0);
      n_eval++;
      n_nontriv++;
      if (o != RET) viol(sg("invoke", "abort"), kase, "invoke by name aborted");
      else if (r != w.lib[i]) viol(sg("invoke", "other-library"), kase, "instance " + std::to_string(i) + " is bound to library " + std::to_string(w.lib[i]) + " but lib_id() ran library " + std::to_string(r) + "'s function");
      else if (c1 - c0 != 1) viol(sg("invoke", "call-count"), kase, "guest function of this instance ran " + std::to_string(c1 - c0) + " times");
      break;
    }
    case 'j': {
      if (!w.live[i]) return true;
      int r = -1;
      auto o = attempt([&] { r = sb.invoke_sandbox_function(lib_id2).UNSAFE_unverified(); });
      n_eval++;
      if (o != RET || r != 10 + w.lib[i]) viol(sg("invoke", "other-function"), kase, "lib_id2() on instance " + std::to_string(i) + " returned " + std::to_string(r) + ": a different function than the named one ran");
      break;
    }
    case 'g': {
      if (!w.live[i]) return true;
      long c0 = calls_of(sb, i, 1);
      long r = -1;
      auto o = attempt([&] { r = sb.invoke_sandbox_function(add3, 5L, 6, (short)7).UNSAFE_unverified(); });
      long c1 = calls_of(sb, i, 1);
      n_eval++;
      if (o != RET || r != 18 + 1000 * w.lib[i]) viol(sg("invoke", "other-library"), kase, "add3 on instance " + std::to_string(i) + " (library " + std::to_string(w.lib[i]) + ") returned " + std::to_string(r));
      else if (c1 - c0 != 1) viol(sg("invoke", "call-count"), kase, "add3 ran " + std::to_string(c1 - c0) + " times in this instance");
      break;
    }
    case 'n': {
      // invoke the SAME name whose address is taken by 'a' / 'p'
      if (!w.live[i]) return true;
      int r = -1;
      auto o = attempt([&] { r = sb.invoke_sandbox_function(inc1, 5).UNSAFE_unverified(); });
      n_eval++;
      n_nontriv++;
      if (o != RET) viol(sg("invoke-addressed-name", "abort"), kase, "invoking inc1 by name aborted (its address " + std::string(w.addr[i] ? "had" : "had not") + " been taken before)");
      else if (r != 5 + w.lib[i]) viol(sg("invoke-addressed-name", "other-function"), kase, "inc1(5) on instance " + std::to_string(i) + " returned " + std::to_string(r));
      break;
    }
    case 'a': {
      if (!w.live[i]) return true;
      const void* a = nullptr;
      auto o = attempt([&] { a = (const void*)sb.get_sandbox_function_address(inc1).UNSAFE_unverified(); });
      n_eval++;
      if (o != RET || !a) {
        viol(sg("function-address", "abort"), kase, "get_sandbox_function_address failed");
        break;
      }
#ifdef BK_MBOX
#  ifdef MBOX_INTERNAL_LOOKUP
      const void* want_a = SB::tag_internal(symtab(w.lib[i], "inc1"));
#  else
      const void* want_a = symtab(w.lib[i], "inc1");
#  endif
      if (a != want_a) viol(sg("function-address", SB::untag_or_same(a) == SB::untag_or_same(want_a) ? "invocation-pointer-instead-of-address" : "other-library"), kase, std::string("address of inc1 on instance ") + std::to_string(i) + (SB::untag_or_same(a) == SB::untag_or_same(want_a) ? " is not the backend's function-address representation (the invocation pointer was handed out instead)" : " is another library's function"));
#else
      Dl_info di;
      char want[64];
      snprintf(want, sizeof want, "libguest_%d_%d.so", w.lib[i], i);
      if (!dladdr(a, &di) || !di.dli_fname || !strstr(di.dli_fname, want)) viol(sg("function-address", "other-library"), kase, std::string("address of inc1 lies in ") + (di.dli_fname ? di.dli_fname : "?") + " expected " + want);
#endif
      if (w.addr[i] && w.addr[i] != a) viol(sg("function-address", "unstable"), kase, "address of the same sandbox function changed within one incarnation");
      w.addr[i] = a;
      break;
    }
    case 'p': {
      if (!w.live[i]) return true;
      int r = -1;
      auto o = attempt([&] {
        auto fa = sb.get_sandbox_function_address(inc1);
        r = sb.invoke_sandbox_function(call_cb_n, fa, 10, 1).UNSAFE_unverified();
      });
      n_eval++;
      n_nontriv++;
      if (o != RET || r != 10 + w.lib[i]) viol(sg("pass-function-address", "other-function"), kase, "instance " + std::to_string(i) + ": the sandbox function address passed back as an argument called something returning " + std::to_string(r) + " (expected inc1 of library " + std::to_string(w.lib[i]) + ")");
      break;
    }
  }
  if (w.live[i] && strchr("ijgnap", op.k)) {
    w.last[i] = op.k;
    w.cur[i] = true;
  }
  w.hist += (w.hist.empty() ? "" : " ") + ops(op);
  return g_nviol == before;
}
static void teardown(World& w)
{
  for (int i = 0; i < 3; i++)
    if (w.live[i]) {
      try {
        w.s[i].destroy_sandbox();
      } catch (...) {
      }
    }
}
// second symbol cache (addresses handed out as tainted function pointers), if the tree under test has one
template<class S, class = void>
struct cache2
{
  static size_t size(S&) { return 0; }
};
template<class S>
struct cache2<S, std::void_t<decltype(std::declval<S&>().internal_func_ptr_map)>>
{
  static size_t size(S& s)
  {
    // content hash: names and cached addresses
    size_t h = s.internal_func_ptr_map.size();
    for (auto& e : s.internal_func_ptr_map) h = h * 1000003u + std::hash<std::string>{}(e.first) * 31u + reinterpret_cast<uintptr_t>(e.second);
    return h;
  }
};
static size_t cache2_size(sbx_t& s) { return cache2<sbx_t>::size(s); }
static std::string key(World& w)
{
  std::string k;
  for (int i = 0; i < 3; i++) {
    k += std::to_string(w.live[i]) + std::to_string(w.lib[i]) + (w.addr[i] ? "a" : "-") + w.last[i] + (w.earlier[i] ? "E" : "e");
    // the symbol cache(s), by content: which names are cached (merging states that differ here hid the order "invoke, then take the address")
    for (auto& e : w.s[i].func_ptr_map) k += "," + e.first + "=" + std::to_string(reinterpret_cast<uintptr_t>(e.second));
    k += "/" + std::to_string(cache2_size(w.s[i]));
    k += ";";
  }
  return k;
}

int main(int argc, char** argv)
{
  parse(argc, argv);
  bool thorough = has_flag("--thorough");
#ifdef BK_MBOX
  mb::g_symtab = symtab;
#endif
  std::vector<Op> alpha;
  for (int i = 0; i < 3; i++)
    for (char k : { '1', '2', 'd', 'i', 'j', 'g', 'a', 'p', 'n' }) alpha.push_back({ k, i });
  if (g_args.replay) {
    auto f = split(g_args.replay, '|');
    if (f[0] == bk_name) {
      World w;
      for (auto& t : split(f[1], ' '))
        if (t.size() == 2 && !apply(w, { t[0], t[1] - '0' })) break;
      teardown(w);
    }
    stat("evaluations", n_eval);
    finish();
    return 0;
  }
  int depth = thorough ? 6 : 5;
  std::deque<std::vector<Op>> frontier;
  std::unordered_set<std::string> seen;
  frontier.push_back({});
  seen.insert("init");
  uint64_t idx = 0;
  while (!frontier.empty()) {
    auto h = std::move(frontier.front());
    frontier.pop_front();
    n_states++;
    if ((int)h.size() >= depth) continue;
    if (expired()) break;
    for (auto& op : alpha) {
      if (!mine(idx++) && false) continue;
      auto h2 = h;
      h2.push_back(op);
      World w;
      bool ok = true;
      for (auto& o2 : h2)
        if (!apply(w, o2)) {
          ok = false;
          break;
        }
      if (ok) {
        auto k = key(w);
        if (seen.insert(k).second) frontier.push_back(h2);
      }
      teardown(w);
    }
  }
  stat("states", n_states);
  stat("transitions", n_trans);
  stat("traces", n_trans);
  stat("evaluations", n_eval);
  stat("nontrivial", n_nontriv);
  sample(std::string("{\"backend\":\"") + bk_name + "\",\"history\":\"10 i0 d0 20 i0\",\"meaning\":\"create instance 0 with library 1, invoke lib_id, destroy, create with library 2, invoke lib_id -> must run library 2\"}", 1);
  finish(expired());
  return 0;
}
