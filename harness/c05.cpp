// C05 — tainted pointer arithmetic stays in the sandbox and uses the sandbox stride.
// Engine X: forms x pointee types x every element-aligned base of a 64 KiB region (and null) x
// n over every integer type / wrapper form, against an exact 128-bit oracle E = p +/- n*s_guest.
// Flag-abort build (operations are pure), so ~10^9 evaluations are affordable.
#include <cstdint>
static thread_local int g_abort_flag = 0;
#define RLBOX_CUSTOM_ABORT(msg) (g_abort_flag = 1)
#include "rlbox.hpp"
#include "mbox.hpp"
#include "vcommon.hpp"
#include "vstruct.hpp"
rlbox_load_structs_from_library(vlib);

using namespace vc;

#ifndef C05_MODE
#  define C05_MODE MASK
#endif
#ifndef C05_PTR
#  define C05_PTR uint16_t
#endif
using PtrT = C05_PTR;
#ifdef C05_LOG
// pointer-wide (64-bit) base-relative representation over a 2^C05_LOG region
using Cfg = mb::cfg<PtrT, mb::abi_lp32, mb::C05_MODE, 2, false, C05_LOG>;
#else
using Cfg = mb::cfg<PtrT, mb::abi_lp32, mb::C05_MODE, 2>;
#endif
using SB = mb::mbox<Cfg>;
using sbx_t = rlbox::rlbox_sandbox<SB>;
template<class T>
using tn = rlbox::tainted<T, SB>;
template<class T>
using tv = rlbox::tainted_volatile<T, SB>;

// ---- independent guest layout table (lp32 + PtrT), written by hand ---------------------------
template<class T>
struct gsize;
#define GS(T, n)                                                                                                   \
  template<>                                                                                                       \
  struct gsize<T>                                                                                                  \
  {                                                                                                                \
    static constexpr uint64_t v = n;                                                                               \
    static constexpr const char* name = #T;                                                                        \
  };
GS(char, 1)
GS(short, 2)
GS(int, 4)
GS(long, 4)
GS(long long, 8)
GS(double, 8)
GS(int*, sizeof(PtrT))
GS(long*, sizeof(PtrT))
GS(int[4], 16)
GS(long[3], 12)
using long_2x3 = long[2][3];
using char_3x2 = char[3][2];
using intp_2x2 = int* [2][2];
using clong_4 = const long[4];
using cchar_5 = const char[5];
GS(long_2x3, 24)
GS(clong_4, 16)
GS(cchar_5, 5)
GS(char_3x2, 6)
GS(intp_2x2, 4 * sizeof(PtrT))
using VSG = std::conditional_t<sizeof(PtrT) == 2, VS_lp32_p16, std::conditional_t<sizeof(PtrT) == 4, VS_lp32_p32, VS_lp32_p64>>;
GS(VS, sizeof(VSG))
GS(VT, sizeof(VT_lp32))
#undef GS

static bool g_thorough = false;
static long long n_eval = 0, n_nontriv = 0, n_abort_expected = 0;
static const uint64_t kSize = SB::kSize;
static uintptr_t g_base = 0;
static const uint64_t NULLP = ~0ull;
static const uint64_t CELL_P = 0x7ff0, CELL_N = 0x7fe0;

enum Form
{
  F_ADD,
  F_SUB,
  F_ADDEQ,
  F_SUBEQ,
  F_PREINC,
  F_POSTINC,
  F_PREDEC,
  F_POSTDEC,
  F_IDX,
  F_ADDRIDX,
  F_ADDREV, // n + p: the library defines it as p + n
  F_N
};
static const char* fname[] = { "p+n", "p-n", "p+=n", "p-=n", "++p", "p++", "--p", "p--", "p[n]", "&p[n]", "n+p" };

struct Obs
{
  bool aborted;
  uintptr_t result;   // address the expression yields (value forms) / returns
  uintptr_t operand;  // operand after the operation (compound, inc/dec)
  bool has_operand;
  bool ret_is_operand_ref; // compound/pre forms must return a reference to the operand
};

template<class T, class NT>
static void judge(int form, const char* opnd, const char* pform, uint64_t poff, NT n, const Obs& o)
{
  const uint64_t s = gsize<T>::v;
  i128 nm = std::is_signed_v<NT> ? (i128)n : (i128)(u128)n;
  if (form == F_PREINC || form == F_POSTINC) nm = 1;
  if (form == F_PREDEC || form == F_POSTDEC) nm = -1;
  bool minus = (form == F_SUB || form == F_SUBEQ);
  n_eval++;
  std::string kase = std::string(fname[form]) + "|" + gsize<T>::name + "|" + tname<NT>() + "|" + opnd + "|" + pform + "|" +
                     (poff == NULLP ? std::string("null") : std::to_string(poff)) + "|" + str(nm);
  auto sig = [&](const char* kind, bool fine = true) {
    std::string g = std::string("C05 form=") + fname[form] + " kind=" + kind;
    if (fine) g += std::string(" pointee=") + gsize<T>::name + " ntype=" + tname<NT>() + " opnd=" + opnd + " p=" + pform;
    return g;
  };
  if (poff == NULLP) {
    if (form == F_IDX || form == F_ADDRIDX) return; // null base of [] is C03's business
    n_abort_expected++;
    n_nontriv++;
    if (!o.aborted) viol(sig("null-no-abort"), kase, "arithmetic on a null tainted pointer did not abort");
    return;
  }
  i128 p = (i128)(u128)g_base + poff;
  i128 E = minus ? p - nm * (i128)s : p + nm * (i128)s;
  bool inside = E >= (i128)(u128)g_base && E < (i128)(u128)g_base + (i128)kSize;
  if (nm < -4 || nm > 4) n_nontriv++;
  if (inside) {
    if (o.aborted) {
      viol(sig("spurious-abort"), kase, "exact target " + str(E - (i128)(u128)g_base) + " (offset) is inside the sandbox but the operation aborted");
      return;
    }
    uintptr_t want = (uintptr_t)(u128)E;
    bool post = (form == F_POSTINC || form == F_POSTDEC);
    uintptr_t want_ret = post ? (uintptr_t)(u128)p : want;
    if (o.has_operand && o.operand != want)
      viol(sig("operand-wrong"), kase, "operand holds offset " + str((i128)o.operand - (i128)(u128)g_base) + ", expected " + str(E - (i128)(u128)g_base) + " (stride must be the guest size " + std::to_string(s) + ")");
    else if (o.result != want_ret)
      viol(sig("wrong-address"), kase, "yields offset " + str((i128)o.result - (i128)(u128)g_base) + ", expected " + str((i128)want_ret - (i128)(u128)g_base) + " (stride must be the guest size " + std::to_string(s) + ")");
    else if (o.has_operand && !post && !o.ret_is_operand_ref)
      viol(sig("ret-not-operand"), kase, "compound/pre form did not return a reference to its operand");
  } else {
    n_abort_expected++;
    if (!o.aborted) {
      // did the product wrap modulo 2^64 ?
      i128 prod = nm * (i128)s;
      bool wraps = prod >= ((i128)1 << 64) || prod <= -((i128)1 << 64) || (E < 0) || (E >= ((i128)1 << 64));
      bool landed_inside = o.result >= g_base && o.result - g_base < kSize;
      if (wraps && landed_inside)
        viol(sig("product-wraps-2^64", false), kase,
             "exact target is outside the sandbox (offset " + str(E - (i128)(u128)g_base) + ") but n*s wrapped modulo 2^64 and the operation returned in-sandbox offset " + std::to_string(o.result - g_base) + " without aborting");
      else
        viol(sig("no-abort-outside"), kase, "exact target offset " + str(E - (i128)(u128)g_base) + " is outside the sandbox, operation returned " + (landed_inside ? "an in-sandbox address" : "an address OUTSIDE the sandbox") + " without aborting");
    }
  }
}

struct Env
{
  sbx_t* sb;
};

// ---- operand providers ---------------------------------------------------------------------
template<class NT, int OF, class F>
static bool with_operand(Env& e, NT n, F&& f)
{
  if constexpr (OF == 0) {
    f(n);
    return true;
  } else if constexpr (OF == 1) {
    tn<NT> t = n;
    f(t);
    return true;
  } else {
    auto pn = tn<NT*>();
    pn.assign_raw_pointer(*e.sb, reinterpret_cast<NT*>(g_base + CELL_N));
    g_abort_flag = 0;
    *pn = n;
    if (g_abort_flag) return false; // n not representable in the guest cell: case does not exist
    f(*pn);
    return true;
  }
}

template<class T, class NT, int OF, int PF>
static void run_forms(Env& e, uint64_t poff, NT n, bool n_independent_forms)
{
  static const char* on[] = { "plain", "tainted", "tainted_volatile" };
  static const char* pn[] = { "tainted", "tainted_volatile" };
  if (PF == 1 && poff == 0) return; // offset 0 has representation 0 = null: not expressible in a pointer cell
  T* raw = poff == NULLP ? nullptr : reinterpret_cast<T*>(g_base + poff);
  auto mk = [&]() {
    tn<T*> t = nullptr;
    if (raw) t.assign_raw_pointer(*e.sb, raw);
    return t;
  };
  auto addr = [](auto&& taintedptr) { return reinterpret_cast<uintptr_t>(taintedptr.UNSAFE_unverified()); };
  // a pointer cell in sandbox memory (tainted_volatile<T*>)
  tn<T**> cellp;
  cellp.assign_raw_pointer(*e.sb, reinterpret_cast<T**>(g_base + CELL_P));
  auto setcell = [&]() {
    PtrT rep = raw ? (PtrT)poff : 0;
    memcpy(reinterpret_cast<void*>(g_base + CELL_P), &rep, sizeof rep);
  };
  auto cellval = [&]() -> uintptr_t {
    PtrT rep;
    memcpy(&rep, reinterpret_cast<void*>(g_base + CELL_P), sizeof rep);
    return g_base + rep; // representation 0 reads back as null; offset-0 targets are skipped by the caller
  };
  for (int form = 0; form < F_N; form++) {
    bool unary = form >= F_PREINC && form <= F_POSTDEC;
    if (unary && !n_independent_forms) continue;
    if (!unary && n_independent_forms && false) continue;
    if (PF == 1 && (form == F_POSTINC || form == F_POSTDEC)) continue; // does not compile for tainted_volatile (by-value return)
    if (std::is_class_v<T> && form == F_ADDRIDX) continue;            // unary & of a non-const struct tainted_volatile does not compile
    Obs o{};
    bool exists = with_operand<NT, OF>(e, n, [&](auto&& opnd) {
      g_abort_flag = 0;
      if constexpr (PF == 0) {
        tn<T*> t = mk();
        switch (form) {
          case F_ADD: o.result = addr(t + opnd); break;
          case F_SUB: o.result = addr(t - opnd); break;
          case F_ADDEQ: { auto& r = (t += opnd); o.ret_is_operand_ref = (&r == &t); o.result = addr(r); o.operand = addr(t); o.has_operand = true; break; }
          case F_SUBEQ: { auto& r = (t -= opnd); o.ret_is_operand_ref = (&r == &t); o.result = addr(r); o.operand = addr(t); o.has_operand = true; break; }
          case F_PREINC: { auto& r = ++t; o.ret_is_operand_ref = (&r == &t); o.result = addr(r); o.operand = addr(t); o.has_operand = true; break; }
          case F_POSTINC: { auto r = t++; o.result = addr(r); o.operand = addr(t); o.has_operand = true; break; }
          case F_PREDEC: { auto& r = --t; o.ret_is_operand_ref = (&r == &t); o.result = addr(r); o.operand = addr(t); o.has_operand = true; break; }
          case F_POSTDEC: { auto r = t--; o.result = addr(r); o.operand = addr(t); o.has_operand = true; break; }
          case F_IDX: { auto& r = t[opnd]; o.result = reinterpret_cast<uintptr_t>(&reinterpret_cast<const volatile char&>(r)); break; }
          case F_ADDRIDX: if constexpr (!std::is_class_v<T>) o.result = addr(&t[opnd]); break;
          case F_ADDREV: o.result = addr(opnd + t); break;
        }
      } else {
        setcell();
        auto& c = *cellp; // tainted_volatile<T*>&
        switch (form) {
          case F_ADD: o.result = addr(c + opnd); break;
          case F_SUB: o.result = addr(c - opnd); break;
          case F_ADDEQ: { auto& r = (c += opnd); o.ret_is_operand_ref = (reinterpret_cast<const volatile char*>(&reinterpret_cast<const volatile char&>(r)) == reinterpret_cast<const volatile char*>(g_base + CELL_P)); o.operand = cellval(); o.result = o.operand; o.has_operand = true; break; }
          case F_SUBEQ: { auto& r = (c -= opnd); o.ret_is_operand_ref = (reinterpret_cast<const volatile char*>(&reinterpret_cast<const volatile char&>(r)) == reinterpret_cast<const volatile char*>(g_base + CELL_P)); o.operand = cellval(); o.result = o.operand; o.has_operand = true; break; }
          case F_PREINC: { auto& r = ++c; o.ret_is_operand_ref = (reinterpret_cast<const volatile char*>(&reinterpret_cast<const volatile char&>(r)) == reinterpret_cast<const volatile char*>(g_base + CELL_P)); o.operand = cellval(); o.result = o.operand; o.has_operand = true; break; }
          case F_PREDEC: { auto& r = --c; o.ret_is_operand_ref = (reinterpret_cast<const volatile char*>(&reinterpret_cast<const volatile char&>(r)) == reinterpret_cast<const volatile char*>(g_base + CELL_P)); o.operand = cellval(); o.result = o.operand; o.has_operand = true; break; }
          case F_IDX: { auto& r = c[opnd]; o.result = reinterpret_cast<uintptr_t>(&reinterpret_cast<const volatile char&>(r)); break; }
          case F_ADDRIDX: if constexpr (!std::is_class_v<T>) o.result = addr(&c[opnd]); break;
          case F_ADDREV: o.result = addr(opnd + c); break;
          default: break;
        }
      }
      o.aborted = g_abort_flag;
    });
    if (!exists) continue;
    if (PF == 1 && o.has_operand && !o.aborted && o.operand == g_base) continue; // cell holds 0: null and offset 0 are indistinguishable
    judge<T, NT>(form, on[OF], pn[PF], poff, n, o);
  }
}

// ---- n values --------------------------------------------------------------------------------
template<class NT>
static void nvalues(uint64_t s, uint64_t poff, std::vector<NT>& out)
{
  static thread_local std::vector<i128> tmp;
  tmp.clear();
  for (int d = -4; d <= 4; d++) tmp.push_back(d);
  if (poff != NULLP) {
    i128 to_start = -(i128)(poff / s);
    i128 to_end = (i128)((kSize - poff + s - 1) / s); // first n with target >= end
    for (int d = -2; d <= 2; d++) {
      tmp.push_back(to_start + d);
      tmp.push_back(to_end + d);
      tmp.push_back(-(to_start + d));
      tmp.push_back(-(to_end + d));
    }
  }
  tmp.push_back((i128)std::numeric_limits<NT>::min());
  tmp.push_back((i128)(u128)std::numeric_limits<NT>::max());
  tmp.push_back((i128)std::numeric_limits<NT>::min() + 1);
  tmp.push_back((i128)(u128)std::numeric_limits<NT>::max() - 1);
  for (int k : { 16, 31, 32, 63, 64 }) {
    i128 q = ((i128)1 << k) / (i128)s;
    for (int d = -1; d <= 2; d++) {
      tmp.push_back(q + d);
      tmp.push_back(-(q + d));
    }
  }
  std::sort(tmp.begin(), tmp.end());
  tmp.erase(std::unique(tmp.begin(), tmp.end()), tmp.end());
  out.clear();
  for (i128 v : tmp)
    if (representable<NT>(v)) out.push_back((NT)v);
}

template<class... Ts>
struct tl
{};
template<class F, class... Ts>
static void for_types(tl<Ts...>, F f)
{
  (f((Ts*)nullptr), ...);
}
using NTs = tl<signed char, unsigned char, short, unsigned short, int, unsigned, long, unsigned long, long long, unsigned long long>;

static uint64_t g_caseblock = 0;

template<class T>
static void pointee(Env& e)
{
  const uint64_t s = gsize<T>::v;
  static_assert(true);
  // sanity of the harness' own table vs. what RLBox instantiates is itself part of the property:
  if (sizeof(tv<T>) != s)
    viol(std::string("C05 kind=stride-mismatch pointee=") + gsize<T>::name, std::string("sizeof|") + gsize<T>::name,
         "sizeof(tainted_volatile<T>) = " + std::to_string(sizeof(tv<T>)) + " but the guest ABI size is " + std::to_string(s));
  std::vector<uint64_t> bases;
  bases.push_back(NULLP);
  uint64_t nel = kSize / s;
  if (kSize <= 65536) {
    for (uint64_t i = 0; i < nel; i++) bases.push_back(i * s);
    // unaligned bases at both ends too
    for (uint64_t off : { (uint64_t)1, (uint64_t)3, kSize - 1, kSize - 3 }) bases.push_back(off);
  } else {
    for (uint64_t i = 0; i < 64; i++) {
      bases.push_back(i * s);
      bases.push_back((nel - 1 - i) * s);
    }
    for (int k = 8; k < 32; k++) {
      bases.push_back((((uint64_t)1 << k) / s) * s);
      bases.push_back((((uint64_t)1 << k) / s) * s - s);
    }
  }
  for_types(NTs{}, [&](auto* np) {
    using NT = std::remove_pointer_t<decltype(np)>;
    std::vector<NT> ns;
    bool first_nt = std::is_same_v<NT, signed char>;
    for (size_t bi = 0; bi < bases.size(); bi++) {
      uint64_t poff = bases[bi];
      uint64_t blk = g_caseblock++;
      if (!mine(blk / 64)) continue;
      nvalues<NT>(s, poff, ns);
      bool edge = poff == NULLP || bi < 20 || bi + 20 >= bases.size() || (bi % 257) == 0;
      bool firstn = true;
      for (NT n : ns) {
        run_forms<T, NT, 0, 0>(e, poff, n, first_nt && firstn);
        if (edge || g_thorough) {
          run_forms<T, NT, 1, 0>(e, poff, n, false);
          run_forms<T, NT, 2, 0>(e, poff, n, false);
          run_forms<T, NT, 0, 1>(e, poff, n, first_nt && firstn);
          run_forms<T, NT, 1, 1>(e, poff, n, false);
        }
        firstn = false;
      }
    }
  });
  sample(std::string("{\"pointee\":\"") + gsize<T>::name + "\",\"guest_size\":" + std::to_string(s) + ",\"bases\":" + std::to_string(bases.size()) + ",\"forms\":10,\"n_types\":10}", 20);
}

// replay of one case: form|pointee|ntype|opnd|pform|poff|n
template<class T>
static void replay_pointee(Env& e, const std::vector<std::string>& f)
{
  if (f[1] != gsize<T>::name) return;
  uint64_t poff = f[5] == "null" ? NULLP : strtoull(f[5].c_str(), nullptr, 10);
  i128 nv = parse_i128(f[6]);
  for_types(NTs{}, [&](auto* np) {
    using NT = std::remove_pointer_t<decltype(np)>;
    if (f[2] != tname<NT>()) return;
    NT n = (NT)nv;
    bool unary = f[0] == "++p" || f[0] == "p++" || f[0] == "--p" || f[0] == "p--";
    if (unary) n = 0;
    if (f[3] == "plain" && f[4] == "tainted") run_forms<T, NT, 0, 0>(e, poff, n, unary);
    if (f[3] == "tainted" && f[4] == "tainted") run_forms<T, NT, 1, 0>(e, poff, n, unary);
    if (f[3] == "tainted_volatile" && f[4] == "tainted") run_forms<T, NT, 2, 0>(e, poff, n, unary);
    if (f[3] == "plain" && f[4] == "tainted_volatile") run_forms<T, NT, 0, 1>(e, poff, n, unary);
    if (f[3] == "tainted" && f[4] == "tainted_volatile") run_forms<T, NT, 1, 1>(e, poff, n, unary);
  });
}

#ifndef C05_TYPES
#  define C05_TYPES char, short, int, long, long long, double, int*, long*, int[4], long[3], VS
#endif
using PTs = tl<C05_TYPES>;

int main(int argc, char** argv)
{
  parse(argc, argv);
  g_thorough = has_flag("--thorough");
  sbx_t sb, other;
  sb.create_sandbox(0);
  other.create_sandbox(1); // a second live instance so that "own sandbox" is distinguishable
  g_base = sb.get_sandbox_impl()->base;
  Env e{ &sb };
  if (g_args.replay) {
    auto f = split(g_args.replay, '|');
    if (f.size() >= 7)
      for_types(PTs{}, [&](auto* tp) { replay_pointee<std::remove_pointer_t<decltype(tp)>>(e, f); });
    else
      for_types(PTs{}, [&](auto* tp) { using T = std::remove_pointer_t<decltype(tp)>; if (sizeof(tv<T>) != gsize<T>::v) viol(std::string("C05 kind=stride-mismatch pointee=") + gsize<T>::name, std::string("sizeof|") + gsize<T>::name, "stride"); });
  } else {
    for_types(PTs{}, [&](auto* tp) { pointee<std::remove_pointer_t<decltype(tp)>>(e); });
  }
  stat("evaluations", n_eval);
  stat("nontrivial", n_nontriv);
  stat("abort_expected", n_abort_expected);
  finish();
  return 0;
}
