// C02 (b) — the two checked entry points for raw pointers abort unless the address lies inside that
// sandbox's memory. Engine X: every address of [base-4096, base+size+4096), null, every address of
// the other live instance (stride), stack / heap / code addresses; three entry points.
static thread_local int g_abort_flag = 0;
#ifdef C02_EXC
// aborts surface as exceptions: what a REFUSED call leaves behind is observable (the flag build carries on after the flag)
#  define RLBOX_USE_EXCEPTIONS
#else
#  define RLBOX_CUSTOM_ABORT(msg) (g_abort_flag = 1)
#endif
#include "rlbox.hpp"
#include "mbox.hpp"
#include "vcommon.hpp"
using namespace vc;
#ifndef C02_MODE
#  define C02_MODE MASK
#endif
using Cfg = mb::cfg<uint16_t, mb::abi_lp32, mb::C02_MODE, 2>;
using SB = mb::mbox<Cfg>;
using sbx_t = rlbox::rlbox_sandbox<SB>;
template<class T>
using tn = rlbox::tainted<T, SB>;
static const uint64_t kSize = SB::kSize;
static long long n_eval = 0, n_nontriv = 0;
static sbx_t *g_sb, *g_other;
static uintptr_t g_base, g_obase;
static const char* kMode = mb::C02_MODE == mb::MASK ? "mask" : "registry";

static const char* g_stack_lo;
static const char* cls_of(uintptr_t a)
{
  if (a == 0) return "null";
  if (a >= g_base - 4096 && a < g_base) return "just-below";
  if (a >= g_base + kSize && a < g_base + kSize + 4096) return "just-above";
  if (a == g_base) return "first-byte";
  if (a == g_base + kSize - 1) return "last-byte";
  if (a > g_base && a < g_base + kSize) return "inside";
  if (a >= g_obase && a < g_obase + kSize) return "other-live-sandbox";
  return "application-memory";
}
static void one(uintptr_t a, const char*)
{
  const char* cls = cls_of(a);
  bool inside = a >= g_base && a - g_base < kSize;
  int* raw = reinterpret_cast<int*>(a);
  n_eval += 3;
  if (!inside) n_nontriv += 3;
  auto bad = [&](const char* ep, const char* kind, const std::string& d) {
    char b[64];
    snprintf(b, sizeof b, "%#lx", (unsigned long)a);
    viol(std::string("C02 mode=") + kMode + " entry=" + ep + " class=" + cls + " kind=" + kind, std::string("addr|") + ep + "|" + b, d + " (address " + b + ", " + cls + ")");
  };
  {
    tn<int*> t = nullptr;
    g_abort_flag = 0;
    t.assign_raw_pointer(*g_sb, raw);
    if (inside && g_abort_flag) bad("tainted::assign_raw_pointer", "refused-inside", "an address inside the sandbox was refused");
    else if (!inside && !g_abort_flag) bad("tainted::assign_raw_pointer", "accepted-outside", "an address outside the sandbox's memory was accepted");
    else if (inside && reinterpret_cast<uintptr_t>(t.UNSAFE_unverified()) != a) bad("tainted::assign_raw_pointer", "value", "the tainted does not hold the address given");
  }
  {
    tn<int**> cell;
    cell.assign_raw_pointer(*g_sb, reinterpret_cast<int**>(g_base + 0x100));
    uint16_t before = 0xBEEF;
    memcpy(reinterpret_cast<void*>(g_base + 0x100), &before, 2);
    g_abort_flag = 0;
    (*cell).assign_raw_pointer(*g_sb, raw);
    uint16_t after;
    memcpy(&after, reinterpret_cast<void*>(g_base + 0x100), 2);
    if (inside && g_abort_flag) bad("tainted_volatile::assign_raw_pointer", "refused-inside", "an address inside the sandbox was refused");
    else if (!inside && !g_abort_flag) bad("tainted_volatile::assign_raw_pointer", "accepted-outside", "an address outside the sandbox's memory was stored into sandbox memory");
    else if (inside && after != (uint16_t)(a - g_base)) bad("tainted_volatile::assign_raw_pointer", "value", "the cell does not hold address - base");
  }
  {
    g_abort_flag = 0;
    auto t = g_sb->UNSAFE_accept_pointer(raw);
    if (inside && g_abort_flag) bad("UNSAFE_accept_pointer", "refused-inside", "an address inside the sandbox was refused");
    else if (!inside && !g_abort_flag) bad("UNSAFE_accept_pointer", "accepted-outside", "an address outside the sandbox's memory was accepted");
    else if (inside && reinterpret_cast<uintptr_t>(t.UNSAFE_unverified()) != a) bad("UNSAFE_accept_pointer", "value", "the tainted does not hold the address given");
  }
}

// raw FUNCTION pointers through the same entry points: the address of an application function (or the host address of
// guest code) never lies inside the sandbox's memory, so all three entry points must abort
static int app_function(long) { return 0; }
static void function_pointers()
{
  using Fn = int (*)(long);
  Fn fns[2] = { &app_function, reinterpret_cast<Fn>(&one) };
  for (int k = 0; k < 2; k++) {
    Fn f = fns[k];
    auto bad = [&](const char* ep) {
      viol(std::string("C02 mode=") + kMode + " entry=" + ep + " class=function-pointer kind=accepted-outside", std::string("fn|") + ep + "|" + std::to_string(k), "the address of an application function was accepted as a tainted function pointer without any check");
    };
    n_eval += 3;
    n_nontriv += 3;
    {
      tn<Fn> t = nullptr;
      g_abort_flag = 0;
      t.assign_raw_pointer(*g_sb, f);
      if (!g_abort_flag) bad("tainted::assign_raw_pointer");
    }
    {
      tn<Fn*> cell;
      cell.assign_raw_pointer(*g_sb, reinterpret_cast<Fn*>(g_base + 0x120));
      g_abort_flag = 0;
      (*cell).assign_raw_pointer(*g_sb, f);
      if (!g_abort_flag) bad("tainted_volatile::assign_raw_pointer");
    }
    {
      g_abort_flag = 0;
      auto t = g_sb->UNSAFE_accept_pointer(f);
      (void)t;
      if (!g_abort_flag) bad("UNSAFE_accept_pointer");
    }
  }
}

#ifdef C02_EXC
// a refused raw pointer must not have reached sandbox memory (or the tainted) by the time the refusal surfaces
static void refused_leaves_nothing(uintptr_t a)
{
  const char* cls = cls_of(a);
  bool inside = a >= g_base && a - g_base < kSize;
  if (inside) return;
  int* raw = reinterpret_cast<int*>(a);
  char b[64];
  snprintf(b, sizeof b, "%#lx", (unsigned long)a);
  n_eval += 2;
  n_nontriv += 2;
  {
    tn<int**> cell;
    cell.assign_raw_pointer(*g_sb, reinterpret_cast<int**>(g_base + 0x100));
    uint16_t before = 0xBEEF, after = 0;
    memcpy(reinterpret_cast<void*>(g_base + 0x100), &before, 2);
    bool threw = false;
    try {
      (*cell).assign_raw_pointer(*g_sb, raw);
    } catch (const std::runtime_error&) {
      threw = true;
    }
    memcpy(&after, reinterpret_cast<void*>(g_base + 0x100), 2);
    if (threw && after != before)
      viol(std::string("C02 mode=") + kMode + " entry=tainted_volatile::assign_raw_pointer class=" + cls + " kind=refused-address-stored", std::string("exc|") + b, std::string("the call was refused but the pointer cell in sandbox memory changed from 0xbeef to ") + std::to_string(after) + " (address " + b + ")");
  }
  {
    tn<int*> t = nullptr;
    bool threw = false;
    try {
      t.assign_raw_pointer(*g_sb, raw);
    } catch (const std::runtime_error&) {
      threw = true;
    }
    if (threw && t.UNSAFE_unverified() != nullptr)
      viol(std::string("C02 mode=") + kMode + " entry=tainted::assign_raw_pointer class=" + cls + " kind=refused-address-stored", std::string("exc|") + b, std::string("the call was refused but the tainted holds the address (") + b + ")");
  }
}
#endif

int main(int argc, char** argv)
{
  parse(argc, argv);
  sbx_t sb, other;
  other.create_sandbox(1);
  sb.create_sandbox(0);
  g_sb = &sb;
  g_other = &other;
  g_base = sb.get_sandbox_impl()->base;
  g_obase = other.get_sandbox_impl()->base;
#ifdef C02_EXC
  {
    int stackvar;
    static int glob;
    std::vector<uintptr_t> as = { g_base - 1, g_base - 4096, g_base + kSize, g_base + kSize + 8, g_obase, g_obase + 0x40, g_obase + kSize - 1, reinterpret_cast<uintptr_t>(&stackvar), reinterpret_cast<uintptr_t>(&glob), reinterpret_cast<uintptr_t>(&main), 1, 0xffff, (uintptr_t)(g_base + (1ull << 32)), (uintptr_t)(g_base + (1ull << 16)), ~(uintptr_t)0 };
    if (g_args.replay) {
      auto f = split(g_args.replay, '|');
      as = { (uintptr_t)strtoull(f[1].c_str(), nullptr, 16) };
    }
    for (uintptr_t a : as) refused_leaves_nothing(a);
    stat("evaluations", n_eval);
    stat("nontrivial", n_nontriv);
    finish();
    return 0;
  }
#endif
  if (g_args.replay) {
    auto f = split(g_args.replay, '|');
    if (f[0] == "fn") function_pointers();
    else one(strtoull(f[2].c_str(), nullptr, 16), "replay");
    stat("evaluations", n_eval);
    finish();
    return 0;
  }
  uint64_t blk = 0;
  for (uintptr_t a = g_base - 4096; a < g_base + kSize + 4096; a++) {
    if (!mine(blk++ / 1024)) continue;
    const char* cls = a < g_base ? "just-below" : a >= g_base + kSize ? "just-above" : (a == g_base ? "first-byte" : a == g_base + kSize - 1 ? "last-byte" : "inside");
    one(a, cls);
  }
  if (g_args.part == 0) {
    function_pointers();
    one(0, "null");
    for (uintptr_t a = g_obase; a < g_obase + kSize; a += 7) one(a, "other-live-sandbox");
    one(g_obase, "other-live-sandbox");
    one(g_obase + kSize - 1, "other-live-sandbox");
    int stackvar;
    one(reinterpret_cast<uintptr_t>(&stackvar), "stack");
    int* heap = new int[4];
    one(reinterpret_cast<uintptr_t>(heap), "heap");
    delete[] heap;
    one(reinterpret_cast<uintptr_t>(&main), "code");
    for (uintptr_t a : std::vector<uintptr_t>{ 1, 0xffff, 0x10000, (uintptr_t)(g_base & 0xffff), (uintptr_t)(kSize - 1), ~(uintptr_t)0, (uintptr_t)(g_base + (1ull << 32)), (uintptr_t)(g_base - (1ull << 32)), (uintptr_t)(g_base + (1ull << 16)) }) one(a, "aliasing");
  }
  stat("evaluations", n_eval);
  stat("nontrivial", n_nontriv);
  stat("states", 1);
  stat("transitions", n_eval);
  stat("traces", n_eval);
  sample("{\"entry\":\"tainted::assign_raw_pointer\",\"address\":\"base+65536\",\"class\":\"just-above\",\"oracle\":\"abort\"}", 1);
  finish();
  return 0;
}
