// C12 — a callback call runs exactly the registered function with faithful arguments.
// Engine H: register/unregister histories over a pool of six callbacks (three with an identical
// signature, three with distinct ones) to the fixpoint of (registered set, slot assignment); in every
// state every registered callback is called from guest code with boundary values.
// Engine T: all call trees (depth <= 3, width <= 2) over two sandboxes whose equal slot numbers hold
// different functions; the application-side log must show exactly the prescribed function, once per
// call, with the executing sandbox and the reference decoding of the arguments, and guest code must
// receive the reference encoding of the results.
#include "backends.hpp"
#include "vcommon.hpp"
#include "ctree.hpp"
static int g_tree_depth = 3; // 5 in the thorough tier
#include <deque>
#include <optional>
#include <unordered_set>
using namespace vc;

static long long n_states = 0, n_trans = 0, n_eval = 0, n_nontriv = 0;
static std::string cfgname()
{
  std::string s = bk_name;
#ifdef BK_MBOX
  s += std::string("-") + mb::BK_ABI::name;
#endif
#ifdef BK_EMBEDDER_TLS
  s += "-embedderTLS";
#endif
  return s;
}
static std::string sgn(const char* part, const char* kind) { return "C12 cfg=" + cfgname() + " part=" + part + " kind=" + kind; }

#ifdef BK_MBOX
// ====================================================================================================
// foreign-ABI model backend
// ====================================================================================================
#include "vstruct.hpp"
rlbox_load_structs_from_library(vlib);
using VSG = std::conditional_t<std::is_same_v<mb::BK_ABI, mb::abi_wide>, VS_wide_p16, VS_lp32_p16>;

// distinct-signature callbacks and their guest callers
long call_pool(long (*cb)(int, short), int code, short extra);
long call_pl(long (*cb)(int*, long), int* p, long v);
VS* call_sp(VS* (*cb)(VS*), VS* p);
static long long g_guest_seen[4];
static g_long guest_call_pool(g_ptr cb, g_int code, g_short extra)
{
  auto f = (g_long(*)(g_int, g_short))SB::current()->rep_to_fn(cb);
  if (!f) return 0; // the guest was handed a null entry point: nothing runs, which the exactly-once oracle reports
  g_long r = f(code, extra);
  g_guest_seen[0] = (long long)r;
  return r;
}
static g_long guest_call_pl(g_ptr cb, g_ptr p, g_long v)
{
  auto f = (g_long(*)(g_ptr, g_long))SB::current()->rep_to_fn(cb);
  if (!f) return 0;
  g_long r = f(p, v);
  g_guest_seen[1] = (long long)r;
  return r;
}
static g_ptr guest_call_sp(g_ptr cb, g_ptr p)
{
  auto f = (g_ptr(*)(g_ptr))SB::current()->rep_to_fn(cb);
  if (!f) return 0;
  g_ptr r = f(p);
  g_guest_seen[2] = (long long)r;
  return r;
}
struct DRec
{
  int which;
  void* sb;
  uintptr_t p;
  long long v;
};
static std::vector<DRec> g_dlog;
static long long g_d_ret = 0;
static tn<long> d_pl(sbx_t& sb, tn<int*> p, tn<long> v)
{
  g_dlog.push_back({ 4, &sb, reinterpret_cast<uintptr_t>(p.UNSAFE_unverified()), v.UNSAFE_unverified() });
  return tn<long>((long)g_d_ret);
}
static rlbox::tainted_opaque<VS*, SB> d_sp(sbx_t& sb, tn<VS*> p)
{
  g_dlog.push_back({ 5, &sb, reinterpret_cast<uintptr_t>(p.UNSAFE_unverified()), 0 });
  return p.to_opaque();
}
static tn<long> d_int3(sbx_t& sb, tn<int> code, tn<short> extra)
{
  g_dlog.push_back({ 3, &sb, 0, code.UNSAFE_unverified() * 100000LL + extra.UNSAFE_unverified() });
  return tn<long>(7);
}

struct Reg
{
  sbx_t* sb;
  std::optional<rlbox::sandbox_callback<long (*)(int, short), SB>> p[4]; // pool_cb<0..2>, d_int3 (same signature as the pool)
  std::optional<rlbox::sandbox_callback<long (*)(int*, long), SB>> pl;
  std::optional<rlbox::sandbox_callback<VS* (*)(VS*), SB>> sp;
  bool has(int k) const { return k < 4 ? p[k].has_value() : k == 4 ? pl.has_value() : sp.has_value(); }
  int count() const
  {
    int c = 0;
    for (int k = 0; k < 6; k++) c += has(k);
    return c;
  }
};
static void do_reg(Reg& r, int k)
{
  switch (k) {
    case 0: r.p[0].emplace(r.sb->register_callback(pool_cb<0>)); break;
    case 1: r.p[1].emplace(r.sb->register_callback(pool_cb<1>)); break;
    case 2: r.p[2].emplace(r.sb->register_callback(pool_cb<2>)); break;
    case 3: r.p[3].emplace(r.sb->register_callback(d_int3)); break;
    case 4: r.pl.emplace(r.sb->register_callback(d_pl)); break;
    case 5: r.sp.emplace(r.sb->register_callback(d_sp)); break;
  }
}
static void do_unreg(Reg& r, int k)
{
  if (k < 4) r.p[k].reset();
  else if (k == 4) r.pl.reset();
  else r.sp.reset();
}

static void call_all(Reg& r, const std::string& kase)
{
  sbx_t& sb = *r.sb;
  g_run.tree = nullptr;
  const int codes[] = { std::numeric_limits<int>::min(), -1, 0, 12345, std::numeric_limits<int>::max() };
  const short extras[] = { std::numeric_limits<short>::min(), 0, std::numeric_limits<short>::max() };
  for (int k = 0; k < 4; k++) {
    if (!r.p[k]) continue;
    for (int c : codes)
      for (short e : extras) {
        g_run.cblog.clear();
        g_dlog.clear();
        long res = 0;
        long want = k == 3 ? 7 : 100L + c;
        bool fits = representable<g_long>((i128)want);
        auto o = attempt([&] { res = sb.invoke_sandbox_function(call_pool, *r.p[k], c, e).UNSAFE_unverified(); });
        n_eval++;
        if (c < 0 || c > 127) n_nontriv++;
        std::string k2 = kase + " call" + std::to_string(k) + ":" + std::to_string(c) + ":" + std::to_string(e);
        size_t runs = g_run.cblog.size() + g_dlog.size();
        if (runs != 1) {
          viol(sgn("history", "not-exactly-once"), k2, "callback " + std::to_string(k) + " ran " + std::to_string(runs) + " times for one guest call");
          continue;
        }
        int ran = g_dlog.empty() ? g_run.cblog[0].k : g_dlog[0].which;
        void* sref = g_dlog.empty() ? g_run.cblog[0].sb : g_dlog[0].sb;
        long long a0 = g_dlog.empty() ? g_run.cblog[0].code : g_dlog[0].v / 100000LL, a1 = g_dlog.empty() ? g_run.cblog[0].extra : 0;
        if (ran != k) viol(sgn("history", "wrong-function"), k2, "guest called the entry point of callback " + std::to_string(k) + " but function " + std::to_string(ran) + " ran");
        else if (sref != &sb) viol(sgn("history", "wrong-sandbox-reference"), k2, "callback received a reference to another sandbox object");
        else if (g_dlog.empty() && (a0 != c || a1 != e)) viol(sgn("history", "argument-value"), k2, "callback saw (" + std::to_string(a0) + "," + std::to_string(a1) + ") for guest values (" + std::to_string(c) + "," + std::to_string(e) + ")");
        else if (fits && (o != RET || res != want || g_guest_seen[0] != want)) viol(sgn("history", "result-value"), k2, "guest received " + std::to_string(g_guest_seen[0]) + " / application got back " + std::to_string(res) + " for callback result " + std::to_string(want));
        else if (!fits && o != ABORT) viol(sgn("history", "unrepresentable-result-not-aborted"), k2, "callback result " + std::to_string(want) + " does not fit the guest long but the call did not abort");
      }
  }
  if (r.pl) {
    auto pi = sb.malloc_in_sandbox<int>();
    for (long v : { -5L, 0L, 2147483647L })
      for (long long ret : { -1LL, 2147483647LL, 4294967296LL }) {
        g_dlog.clear();
        g_run.cblog.clear();
        g_d_ret = ret;
        long res = 0;
        auto o = attempt([&] { res = sb.invoke_sandbox_function(call_pl, *r.pl, pi, v).UNSAFE_unverified(); });
        n_eval++;
        n_nontriv++;
        std::string k2 = kase + " call4:" + std::to_string(v) + ":" + std::to_string(ret);
        bool fits = representable<g_long>((i128)ret);
        if (g_dlog.size() != 1 || !g_run.cblog.empty() || g_dlog[0].which != 4) viol(sgn("history", "wrong-function"), k2, "pointer/long callback: wrong function or not exactly once");
        else if (g_dlog[0].sb != &sb) viol(sgn("history", "wrong-sandbox-reference"), k2, "wrong sandbox reference");
        else if (g_dlog[0].p != reinterpret_cast<uintptr_t>(pi.UNSAFE_unverified()) || g_dlog[0].v != v) viol(sgn("history", "argument-value"), k2, "pointer/long arguments changed");
        else if (fits && (o != RET || res != ret)) viol(sgn("history", "result-value"), k2, "result changed");
        else if (!fits && o != ABORT) viol(sgn("history", "unrepresentable-result-not-aborted"), k2, "result 2^32 does not fit the guest long but the call did not abort");
      }
    sb.free_in_sandbox(pi);
    sb.get_sandbox_impl()->brk = 16;
  }
  if (r.sp) {
    auto ps = sb.malloc_in_sandbox<VS>();
    g_dlog.clear();
    g_run.cblog.clear();
    uintptr_t back = 0;
    auto o = attempt([&] { back = reinterpret_cast<uintptr_t>(sb.invoke_sandbox_function(call_sp, *r.sp, ps).UNSAFE_unverified()); });
    n_eval++;
    std::string k2 = kase + " call5";
    uintptr_t want = reinterpret_cast<uintptr_t>(ps.UNSAFE_unverified());
    if (o != RET || g_dlog.size() != 1 || g_dlog[0].which != 5 || g_dlog[0].sb != &sb) viol(sgn("history", "wrong-function"), k2, "struct-pointer callback: wrong function / sandbox / not once");
    else if (g_dlog[0].p != want || back != want || (uintptr_t)g_guest_seen[2] != want - sb.get_sandbox_impl()->base) viol(sgn("history", "argument-value"), k2, "struct pointer / opaque result not faithful");
    sb.free_in_sandbox(ps);
    sb.get_sandbox_impl()->brk = 16;
  }
}

static std::string slot_key_str(sbx_t& sb)
{
  std::string s;
  void* keys[6] = { (void*)&pool_cb<0>, (void*)&pool_cb<1>, (void*)&pool_cb<2>, (void*)&d_int3, (void*)&d_pl, (void*)&d_sp };
  for (void* k : slot_keys(sb)) {
    int w = -1;
    for (int i = 0; i < 6; i++)
      if (keys[i] == k) w = i;
    s += k ? std::to_string(w) : "_";
  }
  return s;
}

static void histories(bool thorough)
{
  // state = sequence of ops replayed on a fresh sandbox; key = slot assignment string
  std::deque<std::vector<int>> frontier; // op = k (register) or 10+k (unregister)
  std::unordered_set<std::string> seen;
  frontier.push_back({});
  seen.insert("____");
  uint64_t idx = 0;
  while (!frontier.empty()) {
    auto h = std::move(frontier.front());
    frontier.pop_front();
    n_states++;
    for (int op = 0; op < 16; op++) {
      if (op >= 6 && op < 10) continue;
      auto h2 = h;
      h2.push_back(op);
      sbx_t sb, other;
      other.create_sandbox(1);
      sb.create_sandbox(0);
      Reg r;
      r.sb = &sb;
      // the other sandbox holds different functions in the same slot numbers
      Reg ro;
      ro.sb = &other;
      do_reg(ro, 2);
      do_reg(ro, 0);
      bool ok = true;
      std::string hs;
      for (int o2 : h2) {
        int k = o2 % 10;
        bool reg = o2 < 10;
        if (reg && (r.has(k) || r.count() >= (int)kSlots)) { ok = false; break; }
        if (!reg && !r.has(k)) { ok = false; break; }
        n_trans++;
        if (reg) do_reg(r, k);
        else do_unreg(r, k);
        hs += (reg ? "r" : "u") + std::to_string(k) + " ";
      }
      if (ok) {
        std::string key = slot_key_str(sb);
        bool fresh = seen.insert(key).second;
        if (fresh) frontier.push_back(h2);
        if (fresh && mine(idx++)) call_all(r, "hist|" + hs);
      }
      for (int k = 0; k < 6; k++) {
        if (r.has(k)) do_unreg(r, k);
        if (ro.has(k)) do_unreg(ro, k);
      }
      sb.destroy_sandbox();
      other.destroy_sandbox();
    }
  }
  (void)thorough;
  sample("{\"part\":\"history\",\"pool\":6,\"slots\":" + std::to_string(kSlots) + ",\"distinct_slot_assignments\":" + std::to_string(seen.size()) + "}", 5);
}

// ---- trees ----------------------------------------------------------------------------------------------
static void walk(const Tree& t, int idx, std::vector<CbRec>& cbs, std::vector<GuestRec>& gres, void* sbp[2])
{
  const TNode& nd = t.nodes[idx];
  for (int j = 0; j < nd.n; j++) {
    cbs.push_back({ nd.k, sbp[nd.s], idx * 4 + j, 0 });
    if (nd.child[j] >= 0) walk(t, nd.child[j], cbs, gres, sbp);
    gres.push_back({ nd.s, idx * 4 + j, 100 + idx * 4 + j });
  }
}
static void trees()
{
  sbx_t A, B;
  A.create_sandbox(0);
  B.create_sandbox(1);
  using CBT = rlbox::sandbox_callback<long (*)(int, short), SB>;
  std::vector<CBT> cbA(3), cbB(3);
  cbA[0] = A.register_callback(pool_cb<0>);
  cbA[1] = A.register_callback(pool_cb<1>);
  cbA[2] = A.register_callback(pool_cb<2>);
  cbB[2] = B.register_callback(pool_cb<2>);
  cbB[0] = B.register_callback(pool_cb<0>);
  cbB[1] = B.register_callback(pool_cb<1>);
  std::vector<Tree> ts;
  gen_trees(g_tree_depth, 3, ts, true);
  {
    std::vector<Tree> extra;
    gen_trees(2, 3, extra, false);
    for (auto& t : extra) ts.push_back(t);
  }
  void* sbp[2] = { &A, &B };
  for (size_t ti = 0; ti < ts.size(); ti++) {
    if (!mine(ti)) continue;
    auto& t = ts[ti];
    g_run.tree = &t;
    g_run.faults.clear();
    g_run.sb[0] = &A;
    g_run.sb[1] = &B;
    g_run.cbs[0] = &cbA;
    g_run.cbs[1] = &cbB;
    g_run.cblog.clear();
    g_guest_results.clear();
    crash_case("C12 cfg=" + cfgname() + " part=tree", "tree|" + t.str());
    auto o = attempt([&] { run_node(0); });
    crash_clear();
    n_eval++;
    n_nontriv += t.nodes.size() > 1;
    std::vector<CbRec> wc;
    std::vector<GuestRec> wg;
    walk(t, 0, wc, wg, sbp);
    std::string kase = "tree|" + t.str();
    if (o != RET) {
      viol(sgn("tree", "abort"), kase, "fault-free call tree aborted");
      continue;
    }
    bool okc = wc.size() == g_run.cblog.size();
    const char* kind = "call-count";
    for (size_t i = 0; okc && i < wc.size(); i++) {
      auto& g = g_run.cblog[i];
      if (g.k != wc[i].k) { okc = false; kind = "wrong-function"; }
      else if (g.sb != wc[i].sb) { okc = false; kind = "wrong-sandbox-reference"; }
      else if (g.code != wc[i].code || g.extra != 0) { okc = false; kind = "argument-value"; }
    }
    if (!okc) {
      std::string got, want;
      for (auto& g : g_run.cblog) got += "f" + std::to_string(g.k) + (g.sb == &A ? "A" : g.sb == &B ? "B" : "?") + ":" + std::to_string(g.code) + " ";
      for (auto& g : wc) want += "f" + std::to_string(g.k) + (g.sb == &A ? "A" : "B") + ":" + std::to_string(g.code) + " ";
      viol(sgn("tree", kind), kase, "callback runs: " + got + "| expected: " + want);
      continue;
    }
    bool okg = wg.size() == g_guest_results.size();
    for (size_t i = 0; okg && i < wg.size(); i++)
      if (wg[i].inst != g_guest_results[i].inst || wg[i].code != g_guest_results[i].code || wg[i].result != g_guest_results[i].result) okg = false;
    if (!okg) viol(sgn("tree", "guest-side-result-or-executing-instance"), kase, "guest code did not receive the expected results in the expected instance after nested calls");
  }
  cbA.clear();
  cbB.clear();
  A.destroy_sandbox();
  B.destroy_sandbox();
  sample("{\"part\":\"tree\",\"tree\":\"Ak0(Bk1(-),Ak0(-))\",\"meaning\":\"invoke on A with callback 0 called twice; first run invokes B (callback 1 once), second run invokes A again\"}", 5);
}

static void replay_case(const std::string& rp)
{
  g_args.parts = 1;
  if (rp.rfind("tree|", 0) == 0) trees();
  else histories(true);
}
#else
// ====================================================================================================
// host-ABI backends (noop / dylib): callbacks int(int), guest caller call_cb_n from guestlib.c
// ====================================================================================================
struct HRec
{
  int k;
  void* sb;
  int code;
};
static std::vector<HRec> g_hlog;
static const Tree* g_tree;
static sbx_t* g_hsb[2];
using HCB = rlbox::sandbox_callback<int (*)(int), SB>;
static std::vector<HCB>* g_hcbs[2];
static int hrun(int idx)
{
  const TNode& nd = g_tree->nodes[idx];
  return g_hsb[nd.s]->invoke_sandbox_function(call_cb_n, (*g_hcbs[nd.s])[nd.k], idx * 4, nd.n).UNSAFE_unverified();
}
// fault mode: the callback run with code g_throw_code aborts (throws, as a failed RLBox check inside a callback body does under
// RLBOX_USE_EXCEPTIONS); the callback body that performed the nested invocation catches it and goes on
static int g_throw_code = -1;
struct InjectedAbort : std::runtime_error
{
  InjectedAbort()
    : std::runtime_error("injected callback-body abort")
  {}
};
template<int K>
static tn<int> hcb(sbx_t& sb, tn<int> code)
{
  int c = code.UNSAFE_unverified();
  g_hlog.push_back({ K % 100, &sb, c });
  if (g_tree && K < 100) {
    if (c == g_throw_code) throw InjectedAbort();
    int idx = c / 4, j = c % 4;
    if (idx >= 0 && idx < (int)g_tree->nodes.size() && j < 2 && g_tree->nodes[idx].child[j] >= 0) {
      if (g_throw_code >= 0) {
        try {
          hrun(g_tree->nodes[idx].child[j]);
        } catch (const InjectedAbort&) {
          // swallowed by the application: the enclosing invocation continues
        }
      } else
        hrun(g_tree->nodes[idx].child[j]);
    }
  }
  return tn<int>(c + 1);
}
template<size_t... Is>
static void seed_fill(sbx_t& sb, std::vector<HCB>& keep, std::index_sequence<Is...>)
{
  (keep.push_back(sb.register_callback(hcb<100 + (int)Is>)), ...);
}
struct ModelAbort
{};
static void hwalk(const Tree& t, int idx, std::vector<HRec>& out, void* sbp[2], int throw_code = -1)
{
  const TNode& nd = t.nodes[idx];
  for (int j = 0; j < nd.n; j++) {
    out.push_back({ nd.k, sbp[nd.s], idx * 4 + j });
    if (idx * 4 + j == throw_code) throw ModelAbort(); // ends the invocation of this node
    if (nd.child[j] >= 0) {
      try {
        hwalk(t, nd.child[j], out, sbp, throw_code);
      } catch (const ModelAbort&) {
        // caught by this callback body; its invocation goes on with the next run
      }
    }
  }
}
static void trees()
{
  sbx_t A, B;
  bk_create(A, 0, 1);
  bk_create(B, 1, 1);
  std::vector<HCB> fillA, fillB;
  fillA.reserve(64);
  fillB.reserve(64);
  seed_fill(A, fillA, std::make_index_sequence<60>{});
  seed_fill(B, fillB, std::make_index_sequence<60>{});
  std::vector<HCB> cbA(3), cbB(3);
  cbA[0] = A.register_callback(hcb<0>);
  cbA[1] = A.register_callback(hcb<1>);
  cbA[2] = A.register_callback(hcb<2>);
  cbB[2] = B.register_callback(hcb<2>);
  cbB[0] = B.register_callback(hcb<0>);
  cbB[1] = B.register_callback(hcb<1>);
  // a filler through slot 59 still runs its own function
  std::vector<Tree> ts;
  gen_trees(g_tree_depth, 3, ts, true);
  void* sbp[2] = { &A, &B };
  g_hsb[0] = &A;
  g_hsb[1] = &B;
  g_hcbs[0] = &cbA;
  g_hcbs[1] = &cbB;
  for (size_t ti = 0; ti < ts.size(); ti++) {
    if (!mine(ti)) continue;
    auto& t = ts[ti];
    g_tree = &t;
    g_hlog.clear();
    int res = 0;
    crash_case("C12 cfg=" + cfgname() + " part=tree", "tree|" + t.str());
    auto o = attempt([&] { res = hrun(0); });
    crash_clear();
    n_eval++;
    n_nontriv += t.nodes.size() > 1;
    std::vector<HRec> want;
    hwalk(t, 0, want, sbp);
    std::string kase = "tree|" + t.str();
    if (o != RET) {
      viol(sgn("tree", "abort"), kase, "fault-free call tree aborted");
      continue;
    }
    bool ok = want.size() == g_hlog.size();
    const char* kind = "call-count";
    for (size_t i = 0; ok && i < want.size(); i++) {
      if (g_hlog[i].k != want[i].k) { ok = false; kind = "wrong-function"; }
      else if (g_hlog[i].sb != want[i].sb) { ok = false; kind = "wrong-sandbox-reference"; }
      else if (g_hlog[i].code != want[i].code) { ok = false; kind = "argument-value"; }
    }
    int wres = 0;
    for (int j = 0; j < t.nodes[0].n; j++) wres += j + 1;
    if (!ok) {
      std::string got, w2;
      for (auto& g : g_hlog) got += "f" + std::to_string(g.k) + (g.sb == &A ? "A" : g.sb == &B ? "B" : "?") + ":" + std::to_string(g.code) + " ";
      for (auto& g : want) w2 += "f" + std::to_string(g.k) + (g.sb == &A ? "A" : "B") + ":" + std::to_string(g.code) + " ";
      viol(sgn("tree", kind), kase, "callback runs: " + got + "| expected: " + w2);
    } else if (res != wres) viol(sgn("tree", "result-value"), kase, "guest summed " + std::to_string(res) + " expected " + std::to_string(wres));
  }
#ifdef BK_NOOP
  // the same trees with one callback run aborting and the enclosing callback body catching the abort (guest code is part of
  // this translation unit under the noop backend, so the exception can cross it): everything that runs afterwards inside the
  // enclosing invocations must still be dispatched to the right function and sandbox
  for (size_t ti = 0; ti < ts.size(); ti++) {
    if (!mine(ti)) continue;
    auto& t = ts[ti];
    if (t.nodes.size() < 2) continue;
    for (size_t idx = 1; idx < t.nodes.size(); idx++)
      for (int j = 0; j < t.nodes[idx].n; j++) {
        g_tree = &t;
        g_hlog.clear();
        g_throw_code = (int)idx * 4 + j;
        auto o = attempt([&] { hrun(0); });
        g_throw_code = -1;
        n_eval++;
        n_nontriv++;
        std::vector<HRec> want;
        try {
          hwalk(t, 0, want, sbp, (int)idx * 4 + j);
        } catch (const ModelAbort&) {
        }
        std::string kase = "tree|" + t.str() + "|caught-abort@" + std::to_string(idx) + "." + std::to_string(j);
        if (o != RET) {
          viol(sgn("tree-caught-abort", "abort"), kase, "the abort was caught inside the enclosing callback body, yet the outer invocation aborted");
          continue;
        }
        bool ok = want.size() == g_hlog.size();
        const char* kind = "call-count";
        for (size_t i = 0; ok && i < want.size(); i++) {
          if (g_hlog[i].k != want[i].k) { ok = false; kind = "wrong-function"; }
          else if (g_hlog[i].sb != want[i].sb) { ok = false; kind = "wrong-sandbox-reference"; }
          else if (g_hlog[i].code != want[i].code) { ok = false; kind = "argument-value"; }
        }
        if (!ok) {
          std::string got, w2;
          for (auto& g : g_hlog) got += "f" + std::to_string(g.k) + (g.sb == &A ? "A" : g.sb == &B ? "B" : "?") + ":" + std::to_string(g.code) + " ";
          for (auto& g : want) w2 += "f" + std::to_string(g.k) + (g.sb == &A ? "A" : "B") + ":" + std::to_string(g.code) + " ";
          viol(sgn("tree-caught-abort", kind), kase, "after a callback-body abort caught by the enclosing callback: callback runs " + got + "| expected: " + w2);
        }
      }
  }
#endif
  // register/unregister churn at high occupancy: every live entry point still runs its own function
  g_tree = nullptr;
  for (int round = 0; round < 4; round++) {
    cbA[round % 3].unregister();
    cbA[round % 3] = A.register_callback(round % 3 == 0 ? hcb<0> : round % 3 == 1 ? hcb<1> : hcb<2>);
    for (int k = 0; k < 3; k++) {
      g_hlog.clear();
      int r = A.invoke_sandbox_function(call_cb_n, cbA[k], 40, 1).UNSAFE_unverified();
      n_eval++;
      n_trans++;
      if (g_hlog.size() != 1 || g_hlog[0].k != k || g_hlog[0].sb != &A || r != 41) viol(sgn("history", "wrong-function"), "churn|" + std::to_string(round) + ":" + std::to_string(k), "after re-registration at occupancy 63/64 entry point of callback " + std::to_string(k) + " ran something else");
    }
    g_hlog.clear();
    int r = A.invoke_sandbox_function(call_cb_n, fillA[59], 50, 1).UNSAFE_unverified();
    if (g_hlog.size() != 1 || g_hlog[0].k != 59 || r != 51) viol(sgn("history", "wrong-function"), "churn|filler59", "filler in slot 59 ran something else");
  }
  cbA.clear();
  cbB.clear();
  fillA.clear();
  fillB.clear();
  A.destroy_sandbox();
  B.destroy_sandbox();
  n_states = 1;
  sample("{\"part\":\"tree\",\"backend\":\"" + cfgname() + "\",\"occupancy\":\"60 filler registrations + 3 pool callbacks per sandbox\"}", 5);
}
static void histories(bool) {}
static void replay_case(const std::string&)
{
  g_args.parts = 1;
  trees();
}
#endif

int main(int argc, char** argv)
{
  parse(argc, argv);
  install_crash_reporter();
  bool thorough = has_flag("--thorough");
  if (thorough) g_tree_depth = 5;
  if (g_args.replay && std::string(g_args.replay).rfind("tree|", 0) == 0) g_tree_depth = std::max(3, tree_str_depth(std::string(g_args.replay).substr(5)));
  if (g_args.replay) replay_case(g_args.replay);
  else {
    histories(thorough);
    trees();
  }
  stat("states", g_args.part == 0 || n_states == 1 ? n_states : 0);
  stat("transitions", n_trans + n_eval);
  stat("traces", n_eval);
  stat("evaluations", n_eval);
  stat("nontrivial", n_nontriv);
  finish();
  return 0;
}
