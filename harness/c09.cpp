// C09 — verified copies are application-memory snapshots: no check/use window.
// Engine A (adversary interleaver): the "other thread" is the sandbox rewriting its own memory. Its
// writes commute with every RLBox step that does not read sandbox memory, so it acts only at the
// hooked read points (RLBOX_VERIF_POINT) and when the verifier starts. For every copy_and_verify
// variant x source content x script {(point, mutation)} with at most 2 (3) events:
//   * the object the verifier receives lies outside every sandbox region,
//   * every element is a value the source element held at some moment before the verifier started,
//   * it does not change when the whole region is overwritten at verifier entry, nor after return,
//   * strings are NUL-terminated inside the checked length and never longer than it.
#define RLBOX_USE_EXCEPTIONS
#include "rlbox.hpp"
#include "mbox.hpp"
#include "vcommon.hpp"
#include "vstruct.hpp"
#include <csetjmp>
#include <csignal>
#include <functional>
rlbox_load_structs_from_library(vlib);

using namespace vc;
#ifdef C09_WIDE
// guest integers WIDER than the application's (int and short): loads narrow, so a value read for the range check and read
// again for the conversion is a check/use window. Only the narrowing-load variants run in this build.
using Cfg = mb::cfg<uint16_t, mb::abi_wide, mb::MASK, 2>;
#else
using Cfg = mb::cfg<uint16_t, mb::abi_lp32, mb::MASK, 2>;
#endif
using SB = mb::mbox<Cfg>;
using sbx_t = rlbox::rlbox_sandbox<SB>;
template<class T>
using tn = rlbox::tainted<T, SB>;
using PtrT = uint16_t;
static const uint64_t kSize = SB::kSize;
static sbx_t *g_sb, *g_other;
static uintptr_t g_base, g_obase;
static uint8_t* g_mem;
static long long n_eval = 0, n_scripts = 0, n_nontriv = 0, n_points_total = 0;
static int g_maxev = 2;

// ---- fault capture -----------------------------------------------------------------------------------
static sigjmp_buf g_jb;
static volatile sig_atomic_t g_armed = 0;
static void on_segv(int, siginfo_t*, void*)
{
  if (g_armed) siglongjmp(g_jb, 1);
  _exit(139);
}

// ---- the adversary -----------------------------------------------------------------------------------
enum Mut
{
  M_LENGTHEN,   // overwrite the terminator and what follows up to 8 bytes further, new NUL there
  M_SHORTEN0,   // NUL at position 0
  M_SHORTENMID, // NUL in the middle
  M_NONUL,      // remove every NUL from the source to the end of the region (only after strlen)
  M_FLIP,       // xor every byte of the source window with 0xFF
  M_FLIP1,      // xor byte 0 of every element / the first byte
  M_OVERWRITE,  // overwrite the whole window with 0xEE
  M_REDIR_B,    // (receiver is a pointer cell in sandbox memory) point the cell at a second interior object
  M_REDIR_END,  // ... at the last element of the region (a range from there leaves the region)
  M_REDIR_NULL, // ... store the null representation
  M_SETHIGH,    // (narrowing loads) replace the guest integer by one that does not fit the application type (2^32 + 5)
  M_SMALL2,     // (narrowing loads) replace it by another small value (9)
  M_N
};
static const char* mutn[] = { "lengthen", "nul-at-0", "nul-in-middle", "remove-all-nul", "flip-all", "flip-first-byte", "overwrite-EE", "redirect-to-B", "redirect-to-last-element", "redirect-to-null", "set-unrepresentable", "set-9" };
struct Event
{
  int point;
  int mut;
};
struct Scenario
{
  uint64_t src_off = 0;   // start of the source object
  uint64_t src_len = 0;   // bytes of interest (string incl. terminator / elements)
  uint64_t win_off = 0, win_len = 0; // window whose versions are recorded
  bool is_string = false;
  bool no_room = false; // the string ends on the last byte of the region: lengthening = removing its terminator
  // receiver = pointer cell in sandbox memory (tainted_volatile<T*>): where the cell is and where the adversary can point it
  uint64_t cell_off = 0, redir_b = 0, redir_end = 0;
};
static Scenario g_sc;
static std::vector<Event> g_script;
static int g_point = 0;
static bool g_in_op = false;
static std::vector<std::string> g_sites;             // recorded in the baseline run
static std::vector<std::vector<uint8_t>> g_versions; // window content: initial + after every mutation
static size_t g_checked_len = 0;                     // from the "after strlen" hook
static bool g_seen_strlen = false;

static void snapshot_version()
{
  g_versions.emplace_back(g_mem + g_sc.win_off, g_mem + g_sc.win_off + g_sc.win_len);
}
static void apply(int m)
{
  uint8_t* s = g_mem + g_sc.src_off;
  uint64_t L = g_sc.src_len;
  uint64_t wend = g_sc.win_off + g_sc.win_len;
  switch (m) {
    case M_LENGTHEN: {
      uint64_t room = wend - (g_sc.src_off + L);
      uint64_t ext = std::min<uint64_t>(8, room);
      for (uint64_t i = 0; i < ext; i++) s[L - 1 + i] = 'L';
      if (ext) s[L - 1 + ext] = (L - 1 + ext + g_sc.src_off < wend) ? 0 : s[L - 1 + ext];
      if (!ext && L) s[L - 1] = 'L';
      break;
    }
    case M_SHORTEN0: s[0] = 0; break;
    case M_SHORTENMID: s[L / 2] = 0; break;
    case M_NONUL:
      for (uint64_t i = g_sc.src_off; i < wend; i++)
        if (g_mem[i] == 0) g_mem[i] = 'N';
      break;
    case M_FLIP:
      for (uint64_t i = 0; i < L; i++) s[i] ^= 0xFF;
      break;
    case M_FLIP1: s[0] ^= 0xFF; break;
    case M_OVERWRITE: memset(g_mem + g_sc.win_off, 0xEE, g_sc.win_len); break;
    case M_REDIR_B: { PtrT r = (PtrT)g_sc.redir_b; memcpy(g_mem + g_sc.cell_off, &r, sizeof r); break; }
    case M_REDIR_END: { PtrT r = (PtrT)g_sc.redir_end; memcpy(g_mem + g_sc.cell_off, &r, sizeof r); break; }
    case M_REDIR_NULL: { PtrT r = 0; memcpy(g_mem + g_sc.cell_off, &r, sizeof r); break; }
    case M_SETHIGH: { uint64_t v = (1ull << (4 * L)) + 5; memcpy(s, &v, L); break; } // 2^(application width) + 5: does not fit
    case M_SMALL2: { uint64_t v = 9; memcpy(s, &v, L); break; }
  }
  snapshot_version();
}

extern "C" void rlbox_verif_point(const char* site, const volatile void*, std::size_t len)
{
  if (!g_in_op) return;
  int idx = g_point++;
  if ((int)g_sites.size() <= idx) g_sites.resize(idx + 1);
  g_sites[idx] = site;
  if (strstr(site, "after strlen")) {
    g_checked_len = len;
    g_seen_strlen = true;
  }
  for (auto& e : g_script)
    if (e.point == idx) apply(e.mut);
}
extern "C" void rlbox_verif_shared(const volatile void*, int) {}

// the adversary's move when the verifier starts: overwrite everything
static void verifier_entry_attack()
{
  memset(g_mem + g_sc.win_off, 0xEE, g_sc.win_len);
}

static bool outside_all(const void* p, size_t len)
{
  auto a = reinterpret_cast<uintptr_t>(p);
  auto in = [&](uintptr_t b) { return a + len > b && a < b + kSize; };
  return !in(g_base) && !in(g_obase);
}
static uint64_t fnv(const void* p, size_t n)
{
  uint64_t h = 1469598103934665603ull;
  auto b = static_cast<const uint8_t*>(p);
  for (size_t i = 0; i < n; i++) h = (h ^ b[i]) * 1099511628211ull;
  return h;
}
// was `val` (w guest bytes, little endian two's complement of the app value) the content of element k in some version?
static bool in_history(uint64_t elem_off_in_src, int w, i128 value)
{
  uint64_t o = g_sc.src_off - g_sc.win_off + elem_off_in_src;
  for (auto& v : g_versions) {
    if (o + w > v.size()) continue;
    u128 u = 0;
    for (int i = 0; i < w; i++) u |= (u128)v[o + i] << (8 * i);
    i128 sv = (i128)u;
    if (w < 16 && (v[o + w - 1] & 0x80)) sv = (i128)(u | (~(u128)0 << (8 * w)));
    if (sv == value || (i128)u == value) return true;
  }
  return false;
}

// ---- one execution of a variant under the current script --------------------------------------------------
struct Verdict
{
  std::vector<std::string> problems;
  bool aborted = false, crashed = false;
};
using Variant = std::function<void(Verdict&)>;

static std::string script_str()
{
  std::string s;
  for (auto& e : g_script) s += (s.empty() ? "" : ",") + std::to_string(e.point) + ":" + mutn[e.mut];
  return s.empty() ? "-" : s;
}

static int run_once(const char* vname, const std::string& content_tag, const std::function<void()>& setup, const Variant& body, bool report)
{
  setup();
  g_versions.clear();
  snapshot_version();
  g_point = 0;
  g_seen_strlen = false;
  g_checked_len = 0;
  Verdict vd;
  if (sigsetjmp(g_jb, 1)) {
    g_armed = 0;
    g_in_op = false;
    vd.crashed = true;
  } else {
    g_armed = 1;
    g_in_op = true;
    try {
      body(vd);
    } catch (const std::runtime_error&) {
      vd.aborted = true;
    } catch (const std::bad_alloc&) {
      vd.aborted = true;
    }
    g_in_op = false;
    g_armed = 0;
  }
  if (report) {
    if ((n_eval % 1999) == 3) sample(std::string("{\"variant\":\"") + vname + "\",\"content\":\"" + jesc(content_tag) + "\",\"script\":\"" + script_str() + "\",\"read_points\":" + std::to_string(g_point) + ",\"outcome\":\"" + (vd.crashed ? "crash" : vd.aborted ? "abort" : "verifier ran") + "\"}", 6);
    n_eval++;
    if (!g_script.empty()) n_nontriv++;
    std::string kase = std::string(vname) + "|" + content_tag + "|" + script_str();
    std::string sg = std::string("C09 variant=") + vname;
    if (vd.crashed) viol(sg + " kind=crash", kase, "faulted under adversary script " + script_str());
    for (auto& p : vd.problems) {
      std::string kind = p.substr(0, p.find(':'));
      viol(sg + " kind=" + kind, kase, p + " [script " + script_str() + ", content " + content_tag + "]");
    }
  }
  return g_point;
}

// enumerate scripts with at most g_maxev events over `npoints` points
static void explore(const char* vname, const std::string& tag, const std::function<void()>& setup, const Variant& body, const std::vector<int>& muts, uint64_t& idx)
{
  g_script.clear();
  g_sites.clear();
  bool base_mine = mine(idx++);
  int npoints = run_once(vname, tag, setup, body, base_mine);
  if (base_mine) n_points_total += npoints;
  std::vector<std::string> sites = g_sites;
  int strlen_point = -1;
  for (int i = 0; i < (int)sites.size(); i++)
    if (sites[i].find("after strlen") != std::string::npos) strlen_point = i;
  auto allowed = [&](int point, int m) {
    // removing every terminator before RLBox measured the string makes strlen run off the region: that is the
    // (known, C10) unbounded-strlen behaviour, not a check/use window; the adversary does it only afterwards
    if (m == M_NONUL || m == M_LENGTHEN) return g_sc.is_string && ((m == M_LENGTHEN && !g_sc.no_room) || (strlen_point >= 0 && point >= strlen_point));
    if ((m == M_SHORTEN0 || m == M_SHORTENMID) && !g_sc.is_string) return false;
    return true;
  };
  std::vector<Event> evs;
  for (int p = 0; p < npoints; p++)
    for (int m : muts)
      if (allowed(p, m)) evs.push_back({ p, m });
  // 1 event
  for (auto& e : evs) {
    if (!mine(idx++)) continue;
    g_script = { e };
    run_once(vname, tag, setup, body, true);
    n_scripts++;
  }
  // 2 events (ordered by point; same point allowed with different mutations)
  if (g_maxev >= 2)
    for (size_t i = 0; i < evs.size(); i++)
      for (size_t j = 0; j < evs.size(); j++) {
        if (evs[j].point < evs[i].point || (evs[j].point == evs[i].point && j <= i)) continue;
        if (!mine(idx++)) continue;
        g_script = { evs[i], evs[j] };
        run_once(vname, tag, setup, body, true);
        n_scripts++;
      }
  if (g_maxev >= 3)
    for (size_t i = 0; i < evs.size(); i++)
      for (size_t j = i + 1; j < evs.size(); j++)
        for (size_t k = j + 1; k < evs.size(); k++) {
          if (!(evs[i].point <= evs[j].point && evs[j].point <= evs[k].point)) continue;
          if (!mine(idx++)) continue;
          g_script = { evs[i], evs[j], evs[k] };
          run_once(vname, tag, setup, body, true);
          n_scripts++;
        }
  g_script.clear();
}

template<class T>
static tn<T*> sp(uint64_t off)
{
  tn<T*> p;
  p.assign_raw_pointer(*g_sb, reinterpret_cast<T*>(g_base + off));
  return p;
}

// ---- variants ---------------------------------------------------------------------------------------------
template<class T, int GW>
static void variant_range(uint64_t off, size_t count, uint64_t& idx)
{
  std::string tag = std::string("range<") + tname<T>() + ">x" + std::to_string(count) + "@" + std::to_string(off);
  auto setup = [=] {
    g_sc = Scenario{ off, count * GW, off >= 16 ? off - 16 : 0, 0, false };
    g_sc.win_len = std::min<uint64_t>(kSize - g_sc.win_off, count * GW + 48);
    memset(g_mem + g_sc.win_off, 0x11, g_sc.win_len);
    for (size_t i = 0; i < count * GW; i++) g_mem[off + i] = (uint8_t)(0x21 + i * 3);
  };
  Variant body = [=](Verdict& vd) {
    auto p = sp<T>(off);
    uint64_t h_ret = p.copy_and_verify_range(
      [&](std::unique_ptr<T[]> v) -> uint64_t {
        if (!v) {
          vd.problems.push_back("null-buffer: verifier received null for a non-null source");
          return 0;
        }
        if (!outside_all(v.get(), count * sizeof(T))) vd.problems.push_back("verifier-object-in-sandbox: buffer handed to the verifier lies in sandbox memory");
        uint64_t h0 = fnv(v.get(), count * sizeof(T));
        verifier_entry_attack();
        if (fnv(v.get(), count * sizeof(T)) != h0) vd.problems.push_back("changed-during-verifier: content changed when the sandbox overwrote its memory");
        for (size_t i = 0; i < count; i++)
          if (!in_history(i * GW, GW, (i128)v[i])) vd.problems.push_back("value-never-held: element " + std::to_string(i) + " = " + str((i128)v[i]) + " was never the content of the source element");
        return h0;
      },
      count);
    (void)h_ret;
  };
  explore("copy_and_verify_range", tag, setup, body, { M_FLIP, M_FLIP1, M_OVERWRITE }, idx);
}

template<class T, int GW>
static void variant_ptr(uint64_t off, uint64_t& idx)
{
  std::string tag = std::string("ptr<") + tname<T>() + ">@" + std::to_string(off);
  auto setup = [=] {
    g_sc = Scenario{ off, GW, off >= 16 ? off - 16 : 0, 0, false };
    g_sc.win_len = std::min<uint64_t>(kSize - g_sc.win_off, GW + 48);
    memset(g_mem + g_sc.win_off, 0x11, g_sc.win_len);
    for (int i = 0; i < GW; i++) g_mem[off + i] = (uint8_t)(0x31 + i * 5);
  };
  Variant body = [=](Verdict& vd) {
    auto p = sp<T>(off);
    T ret = p.copy_and_verify([&](std::unique_ptr<T> v) -> T {
      if (!outside_all(v.get(), sizeof(T))) vd.problems.push_back("verifier-object-in-sandbox: object handed to the verifier lies in sandbox memory");
      T seen = *v;
      verifier_entry_attack();
      if (*v != seen) vd.problems.push_back("changed-during-verifier: content changed when the sandbox overwrote its memory");
      if (!in_history(0, GW, (i128)seen)) vd.problems.push_back("value-never-held: " + str((i128)seen) + " was never the content of the source");
      return seen;
    });
    (void)ret;
  };
  explore("copy_and_verify(pointer)", tag, setup, body, { M_FLIP, M_FLIP1, M_OVERWRITE }, idx);
  // by-value form on the tainted_volatile
  Variant body2 = [=](Verdict& vd) {
    auto p = sp<T>(off);
    p->copy_and_verify([&](T v) -> T {
      if (!outside_all(&v, sizeof(T))) vd.problems.push_back("verifier-object-in-sandbox: value lies in sandbox memory");
      T seen = v;
      verifier_entry_attack();
      if (v != seen) vd.problems.push_back("changed-during-verifier: value changed");
      if (!in_history(0, GW, (i128)seen)) vd.problems.push_back("value-never-held: " + str((i128)seen) + " was never the content of the source");
      return seen;
    });
  };
  explore("copy_and_verify(value)", tag, setup, body2, { M_FLIP, M_OVERWRITE }, idx);
  // by-reference verifier parameters
  Variant body3 = [=](Verdict& vd) {
    auto p = sp<T>(off);
    p->copy_and_verify([&](const T& v) -> T {
      if (!outside_all(&v, sizeof(T))) vd.problems.push_back("verifier-object-in-sandbox: value handed to a by-reference verifier lies in sandbox memory");
      T seen = v;
      verifier_entry_attack();
      if (v != seen) vd.problems.push_back("changed-during-verifier: value changed under a by-reference verifier");
      if (!in_history(0, GW, (i128)seen)) vd.problems.push_back("value-never-held: " + str((i128)seen) + " was never the content of the source");
      return seen;
    });
  };
  explore("copy_and_verify(value, const&)", tag, setup, body3, { M_FLIP, M_OVERWRITE }, idx);
  Variant body4 = [=](Verdict& vd) {
    auto p = sp<T>(off);
    p.copy_and_verify([&](const std::unique_ptr<T>& v) -> T {
      if (!outside_all(v.get(), sizeof(T))) vd.problems.push_back("verifier-object-in-sandbox: object handed to a by-reference verifier lies in sandbox memory");
      T seen = *v;
      verifier_entry_attack();
      if (*v != seen) vd.problems.push_back("changed-during-verifier: content changed under a by-reference verifier");
      if (!in_history(0, GW, (i128)seen)) vd.problems.push_back("value-never-held: " + str((i128)seen));
      return seen;
    });
  };
  explore("copy_and_verify(pointer, const unique_ptr&)", tag, setup, body4, { M_FLIP, M_OVERWRITE }, idx);
}

static void variant_array(uint64_t off, uint64_t& idx)
{
  std::string tag = "int[4]@" + std::to_string(off);
  auto setup = [=] {
    g_sc = Scenario{ off, 16, off >= 16 ? off - 16 : 0, 0, false };
    g_sc.win_len = std::min<uint64_t>(kSize - g_sc.win_off, 16 + 48);
    memset(g_mem + g_sc.win_off, 0x11, g_sc.win_len);
    for (int i = 0; i < 16; i++) g_mem[off + i] = (uint8_t)(0x41 + i);
  };
  Variant body = [=](Verdict& vd) {
    auto p = sp<int[4]>(off);
    (*p).copy_and_verify([&](std::array<int, 4> a) {
      if (!outside_all(&a, sizeof a)) vd.problems.push_back("verifier-object-in-sandbox: array lies in sandbox memory");
      auto seen = a;
      verifier_entry_attack();
      if (a != seen) vd.problems.push_back("changed-during-verifier: array changed");
      for (int i = 0; i < 4; i++)
        if (!in_history(i * 4, 4, (i128)seen[i])) vd.problems.push_back("value-never-held: element " + std::to_string(i));
      return 0;
    });
  };
  explore("copy_and_verify(array)", tag, setup, body, { M_FLIP, M_FLIP1, M_OVERWRITE }, idx);
  // verifiers that take their parameter BY REFERENCE see whatever object the library hands over: it must be a copy in application memory
  Variant body_ref = [=](Verdict& vd) {
    auto p = sp<int[4]>(off);
    (*p).copy_and_verify([&](const std::array<int, 4>& a) {
      if (!outside_all(&a, sizeof a)) vd.problems.push_back("verifier-object-in-sandbox: array handed to a by-reference verifier lies in sandbox memory");
      auto seen = a;
      verifier_entry_attack();
      if (a != seen) vd.problems.push_back("changed-during-verifier: array changed under a by-reference verifier");
      for (int i = 0; i < 4; i++)
        if (!in_history(i * 4, 4, (i128)seen[i])) vd.problems.push_back("value-never-held: element " + std::to_string(i));
      return 0;
    });
  };
  explore("copy_and_verify(array, const&)", tag, setup, body_ref, { M_FLIP, M_OVERWRITE }, idx);
  Variant body_auto = [=](Verdict& vd) {
    auto p = sp<short[8]>(off);
    (*p).copy_and_verify([&](const auto& a) {
      if (!outside_all(&a, sizeof a)) vd.problems.push_back("verifier-object-in-sandbox: array handed to a by-reference verifier lies in sandbox memory");
      auto seen = a;
      verifier_entry_attack();
      if (a != seen) vd.problems.push_back("changed-during-verifier: array changed under a by-reference verifier");
      for (int i = 0; i < 8; i++)
        if (!in_history(i * 2, 2, (i128)seen[i])) vd.problems.push_back("value-never-held: element " + std::to_string(i));
      return 0;
    });
  };
  explore("copy_and_verify(array, const auto&)", tag, setup, body_auto, { M_FLIP, M_OVERWRITE }, idx);
}

static void variant_struct(uint64_t off, uint64_t& idx)
{
  std::string tag = "VS@" + std::to_string(off);
  const uint64_t ssz = sizeof(VS_lp32_p16);
  auto setup = [=] {
    g_sc = Scenario{ off, ssz, off >= 16 ? off - 16 : 0, 0, false };
    g_sc.win_len = std::min<uint64_t>(kSize - g_sc.win_off, ssz + 32);
    memset(g_mem + g_sc.win_off, 0, g_sc.win_len);
    VS_lp32_p16 g{};
    g.a = 0x01020304;
    g.c = 'q';
    g.p = 0x4100;
    g.ll = 0x1122334455667788LL;
    g.arr[0] = 1;
    g.arr[1] = 2;
    g.arr[2] = 3;
    g.fn = 0;
    memcpy(g_mem + off, &g, sizeof g);
  };
  auto check_fields = [=](Verdict& vd, tn<VS>& s) {
    if (!in_history(offsetof(VS_lp32_p16, a), 4, (i128)s.a.UNSAFE_unverified())) vd.problems.push_back("value-never-held: field a");
    if (!in_history(offsetof(VS_lp32_p16, c), 1, (i128)s.c.UNSAFE_unverified())) vd.problems.push_back("value-never-held: field c");
    if (!in_history(offsetof(VS_lp32_p16, ll), 8, (i128)s.ll.UNSAFE_unverified())) vd.problems.push_back("value-never-held: field ll");
    for (int i = 0; i < 3; i++)
      if (!in_history(offsetof(VS_lp32_p16, arr) + 2 * i, 2, (i128)s.arr[i].UNSAFE_unverified())) vd.problems.push_back("value-never-held: field arr[" + std::to_string(i) + "]");
    // the pointer field of the copy designates what a representation the cell held designates IN THIS SANDBOX
    uintptr_t a = reinterpret_cast<uintptr_t>(s.p.UNSAFE_unverified());
    if (a != 0 && !(a >= g_base && a - g_base < kSize)) vd.problems.push_back("pointer-field-not-from-sandbox: field p of the copy points outside the sandbox");
    else if (!in_history(offsetof(VS_lp32_p16, p), 2, a ? (i128)(a - g_base) : 0)) vd.problems.push_back("value-never-held: field p");
  };
  // the adversary never plants pointer representations here (flip of p/fn fields is excluded by using mutations on a/ll only)
  Variant body = [=](Verdict& vd) {
    auto p = sp<VS>(off);
    p.copy_and_verify([&](std::unique_ptr<tn<VS>> v) {
      if (!outside_all(v.get(), sizeof(tn<VS>))) vd.problems.push_back("verifier-object-in-sandbox: struct copy lies in sandbox memory");
      uint64_t h0 = fnv(v.get(), sizeof(tn<VS>));
      verifier_entry_attack();
      if (fnv(v.get(), sizeof(tn<VS>)) != h0) vd.problems.push_back("changed-during-verifier: struct copy changed");
      check_fields(vd, *v);
      return 0;
    });
  };
  explore("copy_and_verify(struct pointer)", tag, setup, body, { M_FLIP1, M_OVERWRITE }, idx);
  Variant body2 = [=](Verdict& vd) {
    auto p = sp<VS>(off);
    p->copy_and_verify([&](tn<VS> v) -> VS {
      if (!outside_all(&v, sizeof v)) vd.problems.push_back("verifier-object-in-sandbox: struct value lies in sandbox memory");
      uint64_t h0 = fnv(&v, sizeof v);
      verifier_entry_attack();
      if (fnv(&v, sizeof v) != h0) vd.problems.push_back("changed-during-verifier: struct value changed");
      check_fields(vd, v);
      return VS{};
    });
  };
  explore("copy_and_verify(struct value)", tag, setup, body2, { M_FLIP1, M_OVERWRITE }, idx);
}

static void variant_string(uint64_t len, bool at_end, uint64_t& idx)
{
  uint64_t off = at_end ? kSize - len - 1 : 0x4000;
  std::string tag = "string len=" + std::to_string(len) + (at_end ? " ending on the last byte" : " interior");
  auto setup = [=] {
    g_sc = Scenario{ off, len + 1, off >= 16 ? off - 16 : 0, 0, true, at_end };
    g_sc.win_len = std::min<uint64_t>(kSize - g_sc.win_off, 16 + len + 1 + 32);
    memset(g_mem + g_sc.win_off, 'x', g_sc.win_len);
    for (uint64_t i = 0; i < len; i++) g_mem[off + i] = 'a' + (i % 26);
    g_mem[off + len] = 0;
    // a second terminator further on, so that "lengthen" has somewhere to stop in the interior case
    if (!at_end) g_mem[off + len + 20] = 0;
  };
  auto judge_str = [=](Verdict& vd, const char* buf, size_t reported_len, bool have_buffer_bytes) {
    if (!g_seen_strlen) return;
    size_t checked = g_checked_len; // bytes range-checked, incl. terminator
    if (reported_len + 1 > checked) vd.problems.push_back("string-longer-than-checked: verifier sees a string of length " + std::to_string(reported_len) + " but only " + std::to_string(checked) + " bytes were range-checked");
    if (have_buffer_bytes) {
      bool nul = false;
      for (size_t i = 0; i < checked; i++)
        if (buf[i] == 0) nul = true;
      if (!nul) vd.problems.push_back("string-unterminated: no NUL inside the checked length of the buffer");
    }
    for (size_t i = 0; i < reported_len && i < checked; i++)
      if (!in_history(i, 1, (i128)(signed char)buf[i]) && !in_history(i, 1, (i128)(unsigned char)buf[i])) vd.problems.push_back("value-never-held: character " + std::to_string(i));
  };
  for (int kind = 0; kind < 3; kind++) {
    Variant body = [=](Verdict& vd) {
      auto p = sp<char>(off);
      if (kind == 0)
        p.copy_and_verify_string([&](std::unique_ptr<char[]> s) {
          if (!s) { vd.problems.push_back("null-buffer: null for a non-null string"); return 0; }
          if (!outside_all(s.get(), g_checked_len)) vd.problems.push_back("verifier-object-in-sandbox: string buffer lies in sandbox memory");
          uint64_t h0 = fnv(s.get(), g_checked_len);
          verifier_entry_attack();
          if (fnv(s.get(), g_checked_len) != h0) vd.problems.push_back("changed-during-verifier: string changed");
          judge_str(vd, s.get(), strnlen(s.get(), g_checked_len + 64 < 4096 ? g_checked_len + 64 : 4096), true);
          return 0;
        });
      else if (kind == 1)
        p.copy_and_verify_string([&](std::unique_ptr<const char[]> s) {
          if (!s) { vd.problems.push_back("null-buffer: null for a non-null string"); return 0; }
          if (!outside_all(s.get(), g_checked_len)) vd.problems.push_back("verifier-object-in-sandbox: string buffer lies in sandbox memory");
          uint64_t h0 = fnv(s.get(), g_checked_len);
          verifier_entry_attack();
          if (fnv(s.get(), g_checked_len) != h0) vd.problems.push_back("changed-during-verifier: string changed");
          judge_str(vd, s.get(), strnlen(s.get(), g_checked_len), true);
          return 0;
        });
      else
        p.copy_and_verify_string([&](std::string s) {
          if (!outside_all(s.data(), s.size() + 1)) vd.problems.push_back("verifier-object-in-sandbox: std::string storage lies in sandbox memory");
          std::string seen = s;
          verifier_entry_attack();
          if (s != seen) vd.problems.push_back("changed-during-verifier: string changed");
          judge_str(vd, s.data(), s.size(), false);
          return 0;
        });
    };
    static const char* kn[] = { "copy_and_verify_string(unique_ptr<char[]>)", "copy_and_verify_string(unique_ptr<const char[]>)", "copy_and_verify_string(std::string)" };
    explore(kn[kind], tag, setup, body, { M_LENGTHEN, M_SHORTEN0, M_SHORTENMID, M_NONUL, M_FLIP, M_OVERWRITE }, idx);
  }
}

static void variant_address(uint64_t off, uint64_t& idx)
{
  std::string tag = "address@" + std::to_string(off);
  auto setup = [=] {
    g_sc = Scenario{ off, 8, off, std::min<uint64_t>(64, kSize - off), false };
    memset(g_mem + off, 0x55, g_sc.win_len);
  };
  Variant body = [=](Verdict& vd) {
    auto p = sp<char>(off);
    uintptr_t a = p.copy_and_verify_address([&](uintptr_t v) { verifier_entry_attack(); return v; });
    uintptr_t b = p.copy_and_verify_buffer_address([&](uintptr_t v) { verifier_entry_attack(); return v; }, 8);
    if (a != g_base + off || b != g_base + off) vd.problems.push_back("address-changed: address verifiers received a different address");
  };
  explore("copy_and_verify_address", tag, setup, body, { M_FLIP, M_OVERWRITE }, idx);
}

// ---- receivers that are pointer CELLS in sandbox memory (tainted_volatile<T*>) -------------------------------
// The adversary can also re-point the cell between RLBox's reads of it. Whatever it does, the verifier must receive
// either nothing (abort) or content that was read inside the region from an address the cell held, and an address
// verifier must receive an address the cell held whose checked extent lies inside the region.
template<class T, int GW>
static void variant_cell(uint64_t& idx)
{
  const uint64_t CELL = 0x2000, A = 0x4000, B = 0x5000, END = kSize - GW;
  const size_t count = 2;
  std::string tag = std::string("cell<") + tname<T>() + "*>";
  auto setup = [=] {
    g_sc = Scenario{ A, count * GW, A - 16, count * GW + 48, false };
    g_sc.cell_off = CELL;
    g_sc.redir_b = B;
    g_sc.redir_end = END;
    memset(g_mem + A - 16, 0x11, count * GW + 48);
    memset(g_mem + B - 16, 0x22, count * GW + 48);
    memset(g_mem + END - 16, 0x33, GW + 16);
    for (size_t i = 0; i < count * GW; i++) {
      g_mem[A + i] = (uint8_t)(0x41 + i * 3);
      g_mem[B + i] = (uint8_t)(0x61 + i * 5);
    }
    for (int i = 0; i < GW; i++) g_mem[END + i] = (uint8_t)(0x71 + i);
    PtrT r = (PtrT)A;
    memcpy(g_mem + CELL, &r, sizeof r);
  };
  // reference contents (guest bytes are written by setup, never by the adversary before the verifier starts)
  auto ref = [=](uint64_t at, size_t i) {
    u128 u = 0;
    for (int k = 0; k < GW; k++) {
      uint8_t b = at == A ? (uint8_t)(0x41 + (i * GW + k) * 3) : at == B ? (uint8_t)(0x61 + (i * GW + k) * 5) : (uint8_t)(0x71 + k);
      u |= (u128)b << (8 * k);
    }
    if (std::is_signed_v<T> && GW < 16 && ((u >> (8 * GW - 1)) & 1)) u |= ~(u128)0 << (8 * GW); // the guest object is GW bytes wide
    return (T)(i128)u;
  };
  auto held = [=](size_t i, T v) { return v == ref(A, i) || v == ref(B, i) || (i == 0 && v == ref(END, 0)); };
  {
    Variant body = [=](Verdict& vd) {
      auto pp = sp<T*>(CELL);
      (*pp).copy_and_verify_range(
        [&](std::unique_ptr<T[]> v) {
          if (!v) return 0; // the cell was null when it was read
          if (!outside_all(v.get(), count * sizeof(T))) vd.problems.push_back("verifier-object-in-sandbox: buffer lies in sandbox memory");
          uint64_t h0 = fnv(v.get(), count * sizeof(T));
          verifier_entry_attack();
          if (fnv(v.get(), count * sizeof(T)) != h0) vd.problems.push_back("changed-during-verifier: content changed");
          for (size_t i = 0; i < count; i++)
            if (!held(i, v[i]) && !in_history(i * GW, GW, (i128)v[i])) vd.problems.push_back("value-never-held: element " + std::to_string(i) + " = " + str((i128)v[i]) + " was not read from an address the cell held");
          return 0;
        },
        count);
    };
    explore("copy_and_verify_range(cell)", tag, setup, body, { M_REDIR_B, M_REDIR_END, M_REDIR_NULL, M_FLIP }, idx);
  }
  {
    Variant body = [=](Verdict& vd) {
      auto pp = sp<T*>(CELL);
      (*pp).copy_and_verify([&](std::unique_ptr<T> v) {
        if (!v) return 0;
        if (!outside_all(v.get(), sizeof(T))) vd.problems.push_back("verifier-object-in-sandbox: object lies in sandbox memory");
        T seen = *v;
        verifier_entry_attack();
        if (*v != seen) vd.problems.push_back("changed-during-verifier: content changed");
        if (!held(0, seen) && !in_history(0, GW, (i128)seen)) vd.problems.push_back("value-never-held: " + str((i128)seen));
        return 0;
      });
    };
    explore("copy_and_verify(pointer cell)", tag, setup, body, { M_REDIR_B, M_REDIR_END, M_REDIR_NULL, M_FLIP }, idx);
  }
  {
    Variant body = [=](Verdict& vd) {
      auto pp = sp<T*>(CELL);
      auto okaddr = [&](uintptr_t v, size_t ext, const char* what) {
        if (v == 0) return;
        if (v != g_base + A && v != g_base + B && v != g_base + END) vd.problems.push_back(std::string("address-never-held: ") + what + " received an address the cell never held");
        else if (v < g_base || v + ext > g_base + kSize) vd.problems.push_back(std::string("address-extent-unchecked: ") + what + " received an address whose " + std::to_string(ext) + "-byte extent leaves the region (the address that was range-checked is not the one delivered)");
      };
      (*pp).copy_and_verify_address([&](uintptr_t v) { okaddr(v, 1, "copy_and_verify_address"); return 0; });
      (*pp).copy_and_verify_buffer_address([&](uintptr_t v) { okaddr(v, count * GW, "copy_and_verify_buffer_address"); return 0; }, count * GW);
    };
    explore("copy_and_verify_address(cell)", tag, setup, body, { M_REDIR_B, M_REDIR_END, M_REDIR_NULL }, idx);
  }
}

// string receiver in a cell
static void variant_cell_string(uint64_t& idx)
{
  const uint64_t CELL = 0x2000, A = 0x4000, B = 0x5000, END = kSize - 1;
  std::string tag = "cell<char*> string";
  auto setup = [=] {
    g_sc = Scenario{ A, 4, A - 16, 4 + 48, true };
    g_sc.cell_off = CELL;
    g_sc.redir_b = B;
    g_sc.redir_end = END;
    memset(g_mem + A - 16, 'x', 4 + 48);
    memset(g_mem + B - 16, 'y', 4 + 48);
    memcpy(g_mem + A, "abc", 4);
    memcpy(g_mem + B, "PQRSTUVW", 9);
    g_mem[END] = 0; // an empty string on the last byte of the region
    g_mem[END - 1] = 'Z';
    PtrT r = (PtrT)A;
    memcpy(g_mem + CELL, &r, sizeof r);
  };
  for (int kind = 0; kind < 2; kind++) {
    Variant body = [=](Verdict& vd) {
      auto pp = sp<char*>(CELL);
      auto judge = [&](const char* buf, size_t n, bool have_bytes) {
        if (!g_seen_strlen) return;
        if (n + 1 > g_checked_len) vd.problems.push_back("string-longer-than-checked: length " + std::to_string(n) + " > checked " + std::to_string(g_checked_len));
        if (have_bytes) {
          bool nul = false;
          for (size_t i = 0; i < g_checked_len; i++)
            if (buf[i] == 0) nul = true;
          if (!nul) vd.problems.push_back("string-unterminated: no NUL inside the checked length");
        }
      };
      if (kind == 0)
        (*pp).copy_and_verify_string([&](std::unique_ptr<char[]> sbuf) {
          if (!sbuf) return 0;
          if (!outside_all(sbuf.get(), g_checked_len)) vd.problems.push_back("verifier-object-in-sandbox: string buffer lies in sandbox memory");
          uint64_t h0 = fnv(sbuf.get(), g_checked_len);
          verifier_entry_attack();
          if (fnv(sbuf.get(), g_checked_len) != h0) vd.problems.push_back("changed-during-verifier: string changed");
          judge(sbuf.get(), strnlen(sbuf.get(), g_checked_len + 64), true);
          return 0;
        });
      else
        (*pp).copy_and_verify_string([&](std::string str) {
          if (!outside_all(str.data(), str.size() + 1)) vd.problems.push_back("verifier-object-in-sandbox: std::string storage lies in sandbox memory");
          std::string seen = str;
          verifier_entry_attack();
          if (str != seen) vd.problems.push_back("changed-during-verifier: string changed");
          judge(str.data(), str.size(), false);
          return 0;
        });
    };
    explore(kind == 0 ? "copy_and_verify_string(cell, unique_ptr<char[]>)" : "copy_and_verify_string(cell, std::string)", tag, setup, body, { M_REDIR_B, M_REDIR_END, M_REDIR_NULL }, idx);
  }
}

// ---- narrowing loads (guest integer wider than the application's) --------------------------------------------
// The cell holds 7. Whatever the adversary writes between RLBox's reads (9, or 2^w+5 with w the application width, which does not fit), the value the
// application gets is one the cell held AND that fits - or the load aborts. A value checked on one read and converted from
// another shows up as 5 (2^32+5 truncated), which the cell never held.
template<class T>
static void variant_narrowing(uint64_t& idx)
{
  const uint64_t off = 0x4000;
  const uint64_t GW = sizeof(rlbox::tainted_volatile<T, SB>);
  std::string tag = std::string("narrowing<") + tname<T>() + "> guest width " + std::to_string(GW);
  auto setup = [=] {
    g_sc = Scenario{ off, GW, off - 16, GW + 48, false };
    memset(g_mem + off - 16, 0, GW + 48);
    uint64_t v = 7;
    memcpy(g_mem + off, &v, GW);
  };
  auto ok = [](T v) { return v == (T)7 || v == (T)9; };
  static const char* pn[] = { "load to tainted", "copy_and_verify(value)", "copy_and_verify(pointer)", "copy_and_verify_range x1" };
  for (int path = 0; path < 4; path++) {
    Variant body = [=](Verdict& vd) {
      auto p = sp<T>(off);
      T got = 7;
      switch (path) {
        case 0: { tn<T> x = *p; got = x.UNSAFE_unverified(); break; }
        case 1: got = p->copy_and_verify([](T v) { return v; }); break;
        case 2: got = p.copy_and_verify([](std::unique_ptr<T> v) { return *v; }); break;
        case 3: got = p.copy_and_verify_range([](std::unique_ptr<T[]> v) { return v[0]; }, 1); break;
      }
      if (!ok(got)) vd.problems.push_back("value-never-held: the application received " + str((i128)got) + ", which the guest cell never held (it held 7, 9 or a value that does not fit the application type)");
    };
    explore((std::string("narrowing ") + pn[path]).c_str(), tag, setup, body, { M_SETHIGH, M_SMALL2 }, idx);
  }
}

// narrowing load of a whole ARRAY: every element is range-checked and converted; an element checked on one read and
// converted from another would again show up as a truncated value
template<class T>
static void variant_narrowing_array(uint64_t& idx)
{
  const uint64_t off = 0x4800;
  const uint64_t GW = sizeof(rlbox::tainted_volatile<T, SB>);
  std::string tag = std::string("narrowing<") + tname<T>() + "[3]> guest width " + std::to_string(GW);
  auto setup = [=] {
    // the adversary's moves act on element 1 (src_off / src_len)
    g_sc = Scenario{ off + GW, GW, off - 16, 3 * GW + 48, false };
    memset(g_mem + off - 16, 0, 3 * GW + 48);
    for (int i = 0; i < 3; i++) {
      uint64_t v = 7;
      memcpy(g_mem + off + i * GW, &v, GW);
    }
  };
  auto ok = [](T v) { return v == (T)7 || v == (T)9; };
  Variant body = [=](Verdict& vd) {
    auto p = sp<T[3]>(off);
    std::array<T, 3> got{ 7, 7, 7 };
    (*p).copy_and_verify([&](std::array<T, 3> a) { got = a; return 0; });
    for (int i = 0; i < 3; i++)
      if (!ok(got[i])) vd.problems.push_back("value-never-held: element " + std::to_string(i) + " of the array arrived as " + str((i128)got[i]) + ", which the guest cell never held");
  };
  explore("narrowing copy_and_verify(array)", tag, setup, body, { M_SETHIGH, M_SMALL2 }, idx);
  Variant body2 = [=](Verdict& vd) {
    auto p = sp<T[3]>(off);
    tn<T[3]> t = *p;
    for (int i = 0; i < 3; i++)
      if (!ok(t[i].UNSAFE_unverified())) vd.problems.push_back("value-never-held: element " + std::to_string(i) + " of the loaded array is " + str((i128)t[i].UNSAFE_unverified()));
  };
  explore("narrowing load of an array", tag, setup, body2, { M_SETHIGH, M_SMALL2 }, idx);
}

// ---- atomic equivalence of single-cell copies -------------------------------------------------------------------
// Whatever the adversary does, the outcome of a verified copy of one primitive cell - an abort, or the bytes the verifier /
// the application received - must be the outcome the same call has on a cell that nobody rewrites and that holds one of the
// contents the cell held. A value validated on one read and delivered from another is the outcome of none of them (e.g. a
// representation check passed on 0x01 and 0xFF delivered, where a still cell holding 0xFF is refused).
template<class T>
static std::string atomic_op(int path, uint64_t off)
{
  T got{};
  try {
    auto p = sp<T>(off);
    switch (path) {
      case 0: { tn<T> x = *p; got = x.UNSAFE_unverified(); break; }
      case 1: got = p->copy_and_verify([](T v) { return v; }); break;
      case 2: got = p.copy_and_verify([](std::unique_ptr<T> v) { return *v; }); break;
      case 3: got = p.copy_and_verify_range([](std::unique_ptr<T[]> v) { return v[0]; }, 1); break;
    }
  } catch (const std::runtime_error&) {
    return "abort";
  }
  uint8_t b[sizeof(T)];
  memcpy(b, &got, sizeof(T));
  std::string r = "bytes";
  char t[4];
  for (size_t i = 0; i < sizeof(T); i++) {
    snprintf(t, sizeof t, " %02x", b[i]);
    r += t;
  }
  return r;
}
template<class T>
static void variant_atomic(uint64_t& idx)
{
  const uint64_t off = 0x4800, scratch = 0x4900;
  const uint64_t GW = sizeof(rlbox::tainted_volatile<T, SB>);
  std::string tag = std::string("atomic<") + tname<T>() + "> guest width " + std::to_string(GW);
  auto setup = [=] {
    g_sc = Scenario{ off, GW, off - 16, GW + 48, false };
    memset(g_mem + off - 16, 0, GW + 48);
    g_mem[off] = 1;
  };
  static const char* pn[] = { "load to tainted", "copy_and_verify(value)", "copy_and_verify(pointer)", "copy_and_verify_range x1" };
  for (int path = 0; path < 4; path++) {
    Variant body = [=](Verdict& vd) {
      std::string got = atomic_op<T>(path, off);
      // reference outcomes: the same call on a still cell holding each content the cell held
      bool was = g_in_op;
      g_in_op = false;
      bool match = false;
      std::string refs;
      for (auto& v : g_versions) {
        memcpy(g_mem + scratch, v.data() + 16, GW);
        std::string r = atomic_op<T>(path, scratch);
        refs += "[" + r + "] ";
        if (r == got) match = true;
      }
      g_in_op = was;
      if (!match) vd.problems.push_back("outcome-of-no-held-content: the call ended with [" + got + "]; on a still cell holding any of the " + std::to_string(g_versions.size()) + " contents the cell held it ends with " + refs);
    };
    explore((std::string("atomic ") + pn[path]).c_str(), tag, setup, body, { M_FLIP, M_OVERWRITE, M_SMALL2 }, idx);
  }
}
template<class... Ts>
static void variant_atomic_all(uint64_t& idx)
{
  (variant_atomic<Ts>(idx), ...);
}

template<class T, int GW>
static void variant_deny(uint64_t off, size_t n, uint64_t& idx)
{
  std::string tag = std::string("deny<") + tname<T>() + "> x" + std::to_string(n) + "@" + std::to_string(off);
  const bool fits = off + n * GW <= kSize;
  auto setup = [=] {
    g_sc = Scenario{ off, std::min<uint64_t>(n * GW, kSize - off), off >= 16 ? off - 16 : 0, 0, false };
    g_sc.win_len = std::min<uint64_t>(kSize - g_sc.win_off, n * GW + 48);
    memset(g_mem + g_sc.win_off, 0x11, g_sc.win_len);
    for (size_t i = 0; i < n * GW && off + i < kSize; i++) g_mem[off + i] = (uint8_t)(0x61 + i);
  };
  Variant body = [=](Verdict& vd) {
    auto p = sp<T>(off);
    bool copied = false;
    T* r = rlbox::copy_memory_or_deny_access(*g_sb, p, n, false, copied);
    if (!fits) { vd.problems.push_back("copy-extends-past-checked-range: " + std::to_string(n) + " elements of " + std::to_string(GW) + " bytes at offset " + std::to_string(off) + " do not fit the region, but a copy was handed out"); free(r); return; }
    if (!r) { vd.problems.push_back("null-buffer: copy_memory_or_deny_access returned null"); return; }
    if (!outside_all(r, n * sizeof(T))) vd.problems.push_back("verifier-object-in-sandbox: denied copy lies in sandbox memory");
    uint64_t h0 = fnv(r, n * sizeof(T));
    verifier_entry_attack();
    if (fnv(r, n * sizeof(T)) != h0) vd.problems.push_back("changed-during-verifier: copy changed after the sandbox overwrote its memory");
    const unsigned char* rb = reinterpret_cast<const unsigned char*>(r);
    for (size_t i = 0; i < n * GW; i++)
      if (!in_history(i, 1, (i128)(signed char)rb[i]) && !in_history(i, 1, (i128)rb[i])) vd.problems.push_back("value-never-held: byte " + std::to_string(i));
    free(r);
  };
  explore("copy_memory_or_deny_access", tag, setup, body, { M_FLIP, M_FLIP1, M_OVERWRITE }, idx);
}

int main(int argc, char** argv)
{
  parse(argc, argv);
  if (has_flag("--thorough")) g_maxev = 3;
  struct sigaction sa;
  memset(&sa, 0, sizeof sa);
  sa.sa_sigaction = on_segv;
  sa.sa_flags = SA_SIGINFO | SA_NODEFER;
  sigaction(SIGSEGV, &sa, nullptr);
  sigaction(SIGBUS, &sa, nullptr);
  sbx_t sb, other;
  sb.create_sandbox(0);
  other.create_sandbox(1);
  g_sb = &sb;
  g_other = &other;
  g_base = sb.get_sandbox_impl()->base;
  g_obase = other.get_sandbox_impl()->base;
  g_mem = sb.get_sandbox_impl()->mem();
  if (g_args.replay) g_args.parts = 1;
  uint64_t idx = 0;
#ifdef C09_WIDE
  variant_narrowing<int>(idx);
  variant_narrowing<unsigned>(idx);
  variant_narrowing<short>(idx);
  variant_narrowing_array<int>(idx);
  variant_narrowing_array<short>(idx);
  variant_atomic_all<bool, char, short, int, unsigned, long>(idx);
  stat("evaluations", n_eval);
  stat("scripts", n_scripts);
  stat("nontrivial", n_nontriv);
  stat("states", n_points_total);
  stat("transitions", n_eval);
  stat("traces", n_eval);
  finish();
  return 0;
#else
  for (uint64_t off : { (uint64_t)0x4000, kSize - 16 }) {
    for (size_t c = 1; c <= 4; c++) {
      variant_range<char, 1>(off + (16 - c), c, idx);
      variant_range<short, 2>(off + (16 - 2 * c), c, idx);
      variant_range<int, 4>(off, c, idx);
      variant_range<long, 4>(off, c, idx);
    }
    variant_ptr<char, 1>(off + 15, idx);
    variant_ptr<short, 2>(off + 14, idx);
    variant_ptr<int, 4>(off + 12, idx);
    variant_ptr<long, 4>(off + 12, idx);
    variant_ptr<long long, 8>(off + 8, idx);
    variant_array(off, idx);
    variant_address(off, idx);
    variant_deny<char, 1>(off + 8, 8, idx);
    variant_deny<char, 1>(off + 15, 1, idx);
    // element types wider than a byte: the element count is not the byte count (the second placement does not fit the region)
    variant_deny<short, 2>(off + 8, 4, idx);
    variant_deny<double, 8>(off, 2, idx);
    variant_deny<short, 2>(off + 10, 5, idx);
    variant_deny<double, 8>(off + 8, 3, idx);
  }
  variant_cell<char, 1>(idx);
  variant_cell<int, 4>(idx);
  variant_cell<long, 4>(idx);
  variant_cell_string(idx);
  variant_atomic_all<bool, char, unsigned char, short, unsigned short, int, unsigned, long, unsigned long, long long, float, double, char16_t>(idx);
  variant_struct(0x4000, idx);
  variant_struct(kSize - sizeof(VS_lp32_p16), idx);
  for (uint64_t len = 0; len <= 3; len++) {
    variant_string(len, false, idx);
    variant_string(len, true, idx);
  }
  stat("evaluations", n_eval);
  stat("scripts", n_scripts);
  stat("nontrivial", n_nontriv);
  stat("states", n_points_total);
  stat("transitions", n_eval);
  stat("traces", n_eval);
  sample("{\"variant\":\"copy_and_verify_string(std::string)\",\"content\":\"string len=3 ending on the last byte\",\"script\":\"1:lengthen,2:remove-all-nul\",\"meaning\":\"adversary acts before read point 1 and before read point 2; the region is overwritten again when the verifier starts\"}", 1);
  finish();
  return 0;
#endif
}
