// C03 — every tainted data pointer is null or points into its own sandbox.
// Engine H used as an *inductiveness* check: every state (pointee type, address) with address in
// {null} U region is taken (a superset of the reachable states), every pointer-producing transition
// is applied once, and the successor must satisfy the invariant or the step must have aborted.
// Plus: every guest representation in every pointer-carrying position (result, callback argument,
// memory cell, array element, struct field, by-value struct), allocation answers, app pointers.
#define RLBOX_USE_EXCEPTIONS
#define RLBOX_USE_STATIC_CALLS() mbox_lookup_symbol
#include "rlbox.hpp"
#include "mbox.hpp"
#include "vcommon.hpp"
#include "vstruct.hpp"
#include <optional>
rlbox_load_structs_from_library(vlib);

using namespace vc;
#ifndef C03_MODE
#  define C03_MODE MASK
#endif
#ifndef C03_PTR
#  define C03_PTR uint16_t
#endif
using PtrT = C03_PTR;
#ifdef C03_LOG
// pointer-wide (64-bit) representation over a 2^C03_LOG region: equal width is not equal representation
using Cfg = mb::cfg<PtrT, mb::abi_lp32, mb::C03_MODE, 4, false, C03_LOG>;
#else
using Cfg = mb::cfg<PtrT, mb::abi_lp32, mb::C03_MODE, 4>;
#endif
using SB = mb::mbox<Cfg>;
using sbx_t = rlbox::rlbox_sandbox<SB>;
template<class T>
using tn = rlbox::tainted<T, SB>;
using VSG = std::conditional_t<sizeof(PtrT) == 2, VS_lp32_p16, std::conditional_t<sizeof(PtrT) == 4, VS_lp32_p32, VS_lp32_p64>>;

static sbx_t* g_sb;
static sbx_t* g_other;
static uintptr_t g_base, g_obase;
static const uint64_t kSize = SB::kSize;
static long long n_states = 0, n_trans = 0, n_abort = 0, n_nontriv = 0, n_eval = 0;
static bool g_thorough = false;

static inline bool inv(const void* p)
{
  auto a = reinterpret_cast<uintptr_t>(p);
  return a == 0 || (a >= g_base && a - g_base < kSize);
}
static std::string where(const void* p)
{
  auto a = reinterpret_cast<uintptr_t>(p);
  if (a >= g_obase && a - g_obase < kSize) return "inside the OTHER live sandbox (offset " + std::to_string(a - g_obase) + ")";
  char b[64];
  snprintf(b, sizeof b, "%p (outside every sandbox)", p);
  return b;
}

template<class T>
struct tyname;
#define TY(T)                                                                                                      \
  template<>                                                                                                       \
  struct tyname<T>                                                                                                 \
  {                                                                                                                \
    static constexpr const char* n = #T;                                                                           \
  };
TY(char) TY(short) TY(int) TY(long) TY(long long) TY(double) TY(int*) TY(long*) TY(VS) TY(int[4]) TY(void) TY(const char)
#undef TY
template<class T>
struct tyname<T*>
{
  static inline const std::string s = std::string(tyname<T>::n) + "*";
  static inline const char* n = s.c_str();
};

static bool g_cur_straddle = false; // the pointee object of the current state extends past the end of the region
static bool g_cur_downcast_start = false;
// check one produced pointer
template<class T>
static void chk(const char* tr, const char* tyn, uint64_t off, const std::string& arg, tn<T*> r)
{
  n_trans++;
  const void* p = reinterpret_cast<const void*>(r.UNSAFE_unverified());
  if (!inv(p)) {
    std::string st = off == ~0ull ? "null" : std::to_string(off);
    std::string sg = std::string("C03 step=") + tr + " pointee=" + tyn + " from=" + (off == ~0ull ? "null" : "inside");
    if (g_cur_straddle && strncmp(tr, "&p->", 4) == 0) sg = "C03 step=&p->field from=struct-straddling-region-end";
    if (g_cur_straddle && strncmp(tr, "&(*p)[", 6) == 0) sg = "C03 step=&(*p)[k] from=array-straddling-region-end";
    if (g_cur_downcast_start && strncmp(tr, "static_cast<Derived", 19) == 0) sg = "C03 step=static_cast<Derived*>(Base*) from=base-subobject-at-region-start";
    if (g_cur_straddle && strncmp(tr, "static_cast<Base", 16) == 0) sg = "C03 step=static_cast<Base*>(Derived*) from=object-straddling-region-end";
    viol(sg, std::string("step|") + tyn + "|" + st + "|" + tr + "|" + arg,
         std::string("from ") + tyn + "* at " + st + ", " + tr + "(" + arg + ") returned a tainted pointer to " + where(p));
  }
}

template<class T, class F>
static void step(const char* tr, uint64_t off, const std::string& arg, F&& f)
{
  try {
    f();
  } catch (const std::runtime_error&) {
    n_trans++;
    n_abort++;
  }
  (void)tr;
  (void)off;
  (void)arg;
}

template<class T>
static tn<T*> mkp(uint64_t off)
{
  tn<T*> t = nullptr;
  if (off != ~0ull) t.assign_raw_pointer(*g_sb, reinterpret_cast<T*>(g_base + off));
  return t;
}

template<class T>
static void state(uint64_t off, const std::vector<i128>& ns)
{
  const char* tyn = tyname<T>::n;
  n_states++;
  g_cur_straddle = off != ~0ull && off + sizeof(rlbox::tainted_volatile<T, SB>) > kSize;
  for (i128 nv : ns) {
    if (nv < -4 || nv > 4) n_nontriv++;
    auto doit = [&](auto n, const char* nt) {
      std::string a = std::string(nt) + ":" + str(nv);
      step<T>("p+n", off, a, [&] { chk<T>("p+n", tyn, off, a, mkp<T>(off) + n); });
      step<T>("p-n", off, a, [&] { chk<T>("p-n", tyn, off, a, mkp<T>(off) - n); });
      step<T>("p+=n", off, a, [&] { auto p = mkp<T>(off); p += n; chk<T>("p+=n", tyn, off, a, p); });
      step<T>("p-=n", off, a, [&] { auto p = mkp<T>(off); p -= n; chk<T>("p-=n", tyn, off, a, p); });
      // the integer on the left: plain and tainted
      step<T>("n+p", off, a, [&] { chk<T>("n+p", tyn, off, a, n + mkp<T>(off)); });
      step<T>("tn+p", off, a, [&] { tn<decltype(n)> tnn = n; chk<T>("tn+p", tyn, off, a, tnn + mkp<T>(off)); });
      if constexpr (!std::is_class_v<T>) {
        step<T>("&p[n]", off, a, [&] { auto p = mkp<T>(off); chk<T>("&p[n]", tyn, off, a, &p[n]); });
      } else {
        // unary & of a struct tainted_volatile compiles only for the const form; reach the same code through a field
        step<T>("&p[n].a", off, a, [&] { auto p = mkp<T>(off); chk<long>("&p[n].a", tyn, off, a, &(p[n].a)); });
      }
    };
    if (representable<long long>(nv)) doit((long long)nv, "ll");
    if (representable<int>(nv)) doit((int)nv, "i");
    if (representable<unsigned long>(nv)) doit((unsigned long)nv, "ul");
    if (representable<signed char>(nv)) doit((signed char)nv, "sc");
    if (representable<unsigned short>(nv)) doit((unsigned short)nv, "us");
  }
  step<T>("++p", off, "", [&] { auto p = mkp<T>(off); ++p; chk<T>("++p", tyn, off, "", p); });
  step<T>("p++", off, "", [&] { auto p = mkp<T>(off); p++; chk<T>("p++", tyn, off, "", p); });
  step<T>("--p", off, "", [&] { auto p = mkp<T>(off); --p; chk<T>("--p", tyn, off, "", p); });
  step<T>("p--", off, "", [&] { auto p = mkp<T>(off); p--; chk<T>("p--", tyn, off, "", p); });
  // (also from the null state: &*p and &p->field must not turn null into a small non-null address)
  {
    if constexpr (std::is_array_v<T>) {
      // element addresses of a static array reached through a pointer to the array
      using E = std::remove_extent_t<T>;
      constexpr size_t N = std::extent_v<T>;
      step<T>("&(*p)[0]", off, "", [&] { auto p = mkp<T>(off); chk<E>("&(*p)[0]", tyn, off, "", &(*p)[0]); });
      step<T>("&(*p)[N-1]", off, "", [&] { auto p = mkp<T>(off); chk<E>("&(*p)[N-1]", tyn, off, "", &(*p)[N - 1]); });
      step<T>("&(*p)[tainted N-1]", off, "", [&] { auto p = mkp<T>(off); tn<unsigned> k = (unsigned)(N - 1); chk<E>("&(*p)[tainted N-1]", tyn, off, "", &(*p)[k]); });
    }
    if constexpr (!std::is_class_v<T>) {
      step<T>("&*p", off, "", [&] { auto p = mkp<T>(off); chk<T>("&*p", tyn, off, "", &*p); });
    } else {
      step<T>("&p->a", off, "", [&] { auto p = mkp<T>(off); chk<long>("&p->a", tyn, off, "", &p->a); });
      step<T>("&p->c", off, "", [&] { auto p = mkp<T>(off); chk<char>("&p->c", tyn, off, "", &p->c); });
      step<T>("&p->p", off, "", [&] { auto p = mkp<T>(off); chk<int*>("&p->p", tyn, off, "", &p->p); });
      step<T>("&p->ll", off, "", [&] { auto p = mkp<T>(off); chk<long long>("&p->ll", tyn, off, "", &p->ll); });
      step<T>("&p->arr[2]", off, "", [&] { auto p = mkp<T>(off); chk<short>("&p->arr[2]", tyn, off, "", &p->arr[2]); });
    }
  }
  // casts, opaque round trip
  step<T>("reinterpret_cast<char*>", off, "", [&] { chk<char>("reinterpret_cast<char*>", tyn, off, "", rlbox::sandbox_reinterpret_cast<char*>(mkp<T>(off))); });
  step<T>("reinterpret_cast<VS*>", off, "", [&] { chk<VS>("reinterpret_cast<VS*>", tyn, off, "", rlbox::sandbox_reinterpret_cast<VS*>(mkp<T>(off))); });
  step<T>("reinterpret_cast<long long*>", off, "", [&] { chk<long long>("reinterpret_cast<long long*>", tyn, off, "", rlbox::sandbox_reinterpret_cast<long long*>(mkp<T>(off))); });
  step<T>("static_cast<void*>", off, "", [&] { chk<void>("static_cast<void*>", tyn, off, "", rlbox::sandbox_static_cast<void*>(mkp<T>(off))); });
  step<T>("const_cast", off, "", [&] { chk<T>("const_cast", tyn, off, "", rlbox::sandbox_const_cast<T*>(rlbox::sandbox_const_cast<const T*>(mkp<T>(off)))); });
  step<T>("opaque", off, "", [&] { auto p = mkp<T>(off); chk<T>("opaque", tyn, off, "", rlbox::from_opaque(p.to_opaque())); });
  // store into a cell, read back
  if (off != 0) {
    step<T>("store-load", off, "", [&] {
      tn<T**> cell;
      cell.assign_raw_pointer(*g_sb, reinterpret_cast<T**>(g_base + 0x7ff0));
      *cell = mkp<T>(off);
      tn<T*> back = *cell;
      chk<T>("store-load", tyn, off, "", back);
      if (reinterpret_cast<uintptr_t>(back.UNSAFE_unverified()) != (off == ~0ull ? 0 : g_base + off))
        viol(std::string("C03 step=store-load pointee=") + tyn + " kind=changed", std::string("step|") + tyn + "|" + std::to_string(off) + "|store-load|", "pointer changed by a store/load round trip");
    });
  }
}

// ---- derived-to-base sandbox_static_cast: the cast adds the application's base-subobject offset --------------
struct CBaseA { long x; };
struct CBaseB { long y; };
struct CDerived : CBaseA, CBaseB { long z; };
template<> struct tyname<CDerived> { static constexpr const char* n = "CDerived"; };
template<> struct tyname<CBaseB> { static constexpr const char* n = "CBaseB"; };
static void derived_cast_state(uint64_t off)
{
  n_states++;
  g_cur_straddle = off != ~0ull && off + sizeof(CDerived) > kSize;
  step<CDerived>("static_cast<BaseB*>", off, "", [&] { chk<CBaseB>("static_cast<BaseB*>", "CDerived", off, "", rlbox::sandbox_static_cast<CBaseB*>(mkp<CDerived>(off))); });
  step<CDerived>("static_cast<BaseA*>", off, "", [&] { chk<CBaseA>("static_cast<BaseA*>", "CDerived", off, "", rlbox::sandbox_static_cast<CBaseA*>(mkp<CDerived>(off))); });
  // the opposite direction: a (guest-supplied) BaseB* in the first bytes of the region, cast down to Derived* (BaseB lives at +sizeof(CBaseA))
  g_cur_downcast_start = off != ~0ull && off < sizeof(CBaseA);
  step<CBaseB>("static_cast<Derived*>", off, "", [&] { chk<CDerived>("static_cast<Derived*>", "CBaseB", off, "", rlbox::sandbox_static_cast<CDerived*>(mkp<CBaseB>(off))); });
  g_cur_downcast_start = false;
}

// ---- pointer-to-pointer dereference: cell at `off` holds every boundary representation ---------
template<class T>
static void deref_state(uint64_t off, const std::vector<uint64_t>& reps)
{
  for (uint64_t r : reps) {
    PtrT rep = (PtrT)r;
    memcpy(reinterpret_cast<void*>(g_base + off), &rep, sizeof rep);
    std::string a = std::to_string(r);
    step<T*>("*pp", off, a, [&] { auto pp = mkp<T*>(off); tn<T*> v = *pp; chk<T>("*pp", tyname<T*>::n, off, a, v); });
    step<T*>("pp[0]", off, a, [&] { auto pp = mkp<T*>(off); tn<T*> v = pp[0]; chk<T>("pp[0]", tyname<T*>::n, off, a, v); });
    step<T*>("pp->UNSAFE", off, a, [&] { auto pp = mkp<T*>(off); tn<T*> v = *pp; auto raw = pp->UNSAFE_unverified(); if (!inv(raw)) viol("C03 step=pp->UNSAFE_unverified kind=outside", std::string("deref|") + a, "raw pointer " + where(raw)); n_trans++; (void)v; });
  }
}

// ---- guest code for the positions sweep -----------------------------------------------------------
int* ret_ptr(unsigned long long r);
int call_with_ptr(int (*cb)(int*), unsigned long long r);
VS ret_struct(unsigned long long r);
static PtrT guest_ret_ptr(uint64_t r) { return (PtrT)r; }
static tn<int*> g_cb_seen;
static int32_t guest_call_with_ptr(PtrT cb, uint64_t r)
{
  auto* s = SB::current();
  auto f = (int32_t(*)(PtrT))s->rep_to_fn(cb);
  return f((PtrT)r);
}
static rlbox::Sbx_vlib_VS<SB> guest_ret_struct(uint64_t r)
{
  rlbox::Sbx_vlib_VS<SB> s{};
  s.p = (PtrT)r;
  return s;
}
static tn<int> cb_ptr(sbx_t&, tn<int*> p)
{
  g_cb_seen = p;
  return 0;
}

static std::optional<rlbox::sandbox_callback<int (*)(int*), SB>> g_cb;
static void positions(uint64_t r)
{
  std::string a = std::to_string(r);
  n_eval++;
  auto one = [&](const char* pos, auto&& f) {
    try {
      tn<int*> p = f();
      n_trans++;
      const void* raw = p.UNSAFE_unverified();
      if (!inv(raw)) viol(std::string("C03 position=") + pos + " kind=outside", std::string("pos|") + pos + "|" + a, std::string("guest representation ") + a + " in position " + pos + " became a tainted pointer to " + where(raw));
      else if (r == 0 && raw != nullptr) viol(std::string("C03 position=") + pos + " kind=zero-not-null", std::string("pos|") + pos + "|" + a, "representation 0 is not null");
    } catch (const std::runtime_error&) {
      n_trans++;
      n_abort++;
    }
  };
  one("invoke-result", [&] { return g_sb->invoke_sandbox_function(ret_ptr, (unsigned long long)r); });
  if (!g_cb) g_cb.emplace(g_sb->register_callback(cb_ptr));
  one("callback-argument", [&] { g_cb_seen = nullptr; g_sb->invoke_sandbox_function(call_with_ptr, *g_cb, (unsigned long long)r); return g_cb_seen; });
  // memory cell, array element, struct field (by pointer and by value)
  PtrT rep = (PtrT)r;
  memcpy(reinterpret_cast<void*>(g_base + 0x100), &rep, sizeof rep);
  one("memory-cell", [&] { tn<int*> v = *mkp<int*>(0x100); return v; });
  memcpy(reinterpret_cast<void*>(g_base + 0x200 + 2 * sizeof(PtrT)), &rep, sizeof rep);
  one("array-element", [&] { tn<int*> v = mkp<int*>(0x200)[2]; return v; });
  one("array-of-pointers-cell", [&] { auto pa = mkp<int* [3]>(0x200); tn<int* [3]> arr = *pa; return arr[2]; });
  VSG gs{};
  gs.p = rep;
  memcpy(reinterpret_cast<void*>(g_base + 0x300), &gs, sizeof gs);
  one("struct-field", [&] { tn<int*> v = mkp<VS>(0x300)->p; return v; });
  one("struct-by-value-field", [&] { tn<VS> s = *mkp<VS>(0x300); return s.p; });
  one("struct-result-field", [&] { auto s = g_sb->invoke_sandbox_function(ret_struct, (unsigned long long)r); return s.p; });
  one("copy_and_verify-struct-field", [&] {
    auto ps = mkp<VS>(0x300);
    tn<int*> got = nullptr;
    ps->copy_and_verify([&](tn<VS> v) { got = v.p; return VS{}; });
    return got;
  });
}

// ---- allocation answers / app pointers -------------------------------------------------------------
template<class T>
static void malloc_answers()
{
  std::vector<uint64_t> answers = { 0, 1, 8, 16, kSize / 2, kSize - 64, kSize - 16, kSize - 8, kSize - 4, kSize - 2, kSize - 1 };
#ifdef MBOX_UNCONFINED
  // the allocator's answer is a representation beyond the region: with a base + representation backend it designates
  // application memory, the neighbouring instance's region, or wraps
  for (uint64_t a : { kSize, kSize + 8, 2 * kSize, (uint64_t)(g_obase - g_base), (uint64_t)(g_obase - g_base) + 64, (uint64_t)0x7fffffff, (uint64_t)0xfffffff0, (uint64_t)0xffffffff })
    if (a <= (uint64_t)std::numeric_limits<PtrT>::max()) answers.push_back(a);
#endif
  for (uint64_t ans : answers)
    for (uint32_t count : { 1u, 2u, 3u, 16u, 4096u, 65535u, 0x10000u, 0x7fffffffu, 0xffffffffu }) {
      g_sb->get_sandbox_impl()->menv.override_next = true;
      g_sb->get_sandbox_impl()->menv.answer = ans;
      std::string a = std::to_string(ans) + "x" + std::to_string(count);
      n_eval++;
      try {
        auto p = g_sb->template malloc_in_sandbox<T>(count);
        n_trans++;
        const void* raw = reinterpret_cast<const void*>(p.UNSAFE_unverified());
        if (!inv(raw)) viol("C03 step=malloc kind=outside", std::string("malloc|") + tyname<T>::n + "|" + a, "malloc answer " + a + " produced pointer to " + where(raw));
        else if (raw) {
          // the block the application was promised: count elements (application stride is what malloc_in_sandbox checks)
          auto last = reinterpret_cast<uintptr_t>(raw) + (uint64_t)(count - 1) * sizeof(std::conditional_t<std::is_void_v<T>, char, T>);
          if (!inv(reinterpret_cast<const void*>(last)) || last < reinterpret_cast<uintptr_t>(raw))
            viol("C03 step=malloc kind=block-leaves-region", std::string("malloc|") + tyname<T>::n + "|" + a, "allocation of " + std::to_string(count) + " elements at offset " + std::to_string(ans) + " was accepted although its last element is " + where(reinterpret_cast<const void*>(last)));
        }
      } catch (const std::runtime_error&) {
        n_trans++;
        n_abort++;
      }
      g_sb->get_sandbox_impl()->menv.override_next = false;
    }
}

static void app_pointers()
{
  static int objs[8];
  std::vector<rlbox::app_pointer<int*, SB>> keep;
  for (int i = 0; i < 8; i++) {
    try {
      keep.push_back(g_sb->get_app_pointer(&objs[i]));
      auto t = keep.back().to_tainted();
      n_trans++;
      if (!inv(t.UNSAFE_unverified()) || t.UNSAFE_unverified() == nullptr) viol("C03 step=app_pointer.to_tainted kind=outside", "apptr|" + std::to_string(i), "app pointer token designates " + where(t.UNSAFE_unverified()));
    } catch (const std::runtime_error&) {
      n_abort++;
    }
  }
}

// raw entry points: every address within 32 bytes of either end of the region (and of the other live instance), for each pointee type,
// through tainted::assign_raw_pointer, tainted_volatile::assign_raw_pointer and UNSAFE_accept_pointer: accepted => inside the own region
template<class T>
static void raw_entries()
{
  if constexpr (std::is_array_v<T>) return;
  auto pp = g_sb->template malloc_in_sandbox<T*>();
  std::vector<uintptr_t> addrs;
  for (long d = -32; d <= 32; d++) {
    addrs.push_back(g_base + d);
    addrs.push_back(g_base + kSize + d);
    addrs.push_back(g_obase + d);
    addrs.push_back(g_obase + kSize + d);
  }
  for (uintptr_t a : addrs) {
    for (int entry = 0; entry < 3; entry++) {
      const void* got = nullptr;
      bool ret = false;
      try {
        if (entry == 0) { tn<T*> t; t.assign_raw_pointer(*g_sb, reinterpret_cast<T*>(a)); got = (const void*)t.UNSAFE_unverified(); }
        else if (entry == 1) { (*pp).assign_raw_pointer(*g_sb, reinterpret_cast<T*>(a)); tn<T*> t = *pp; got = (const void*)t.UNSAFE_unverified(); }
        else { auto t = g_sb->template UNSAFE_accept_pointer<T*>(reinterpret_cast<T*>(a)); got = (const void*)t.UNSAFE_unverified(); }
        ret = true;
      } catch (const std::runtime_error&) {
        n_abort++;
      }
      n_trans++;
      static const char* en[] = { "tainted::assign_raw_pointer", "tainted_volatile::assign_raw_pointer", "UNSAFE_accept_pointer" };
      if (ret && !inv(got))
        viol(std::string("C03 step=") + en[entry] + " pointee=" + tyname<T>::n + " kind=outside", std::string("rawentry|") + tyname<T>::n + "|" + std::to_string((long long)(a - g_base)),
             std::string("raw address region start ") + (a >= g_base ? "+" : "-") + std::to_string(a >= g_base ? a - g_base : g_base - a) + " was accepted and gives a tainted pointer to " + where(got));
    }
  }
  g_sb->free_in_sandbox(pp);
}

// casts from function pointers: the result is a tainted DATA pointer and must satisfy the invariant like any other
int c03_gfn(long);
static int32_t guest_c03_gfn(int32_t) { return 0; }
static void function_pointer_casts()
{
  auto check = [&](const char* what, const void* raw) {
    n_trans++;
    if (!inv(raw)) viol(std::string("C03 step=") + what + " kind=outside", std::string("fncast|") + what, std::string("a tainted data pointer obtained by casting a sandbox function address designates ") + where(raw));
  };
  try {
    auto fa = g_sb->get_sandbox_function_address(c03_gfn);
    check("reinterpret_cast<void*>(function-address)", rlbox::sandbox_reinterpret_cast<void*>(fa).UNSAFE_unverified());
    check("reinterpret_cast<char*>(function-address)", rlbox::sandbox_reinterpret_cast<char*>(fa).UNSAFE_unverified());
  } catch (const std::runtime_error&) {
    n_abort++;
  }
}

template<class... Ts>
struct tl
{};
template<class F, class... Ts>
static void for_types(tl<Ts...>, F f)
{
  (f((Ts*)nullptr), ...);
}
#ifndef C03_TYPES
#  define C03_TYPES char, short, int, long, long long, double, int*, long*, VS, int[4]
#endif

template<class T>
static uint64_t app_size()
{
  return sizeof(T);
}

static std::vector<i128> nvals(uint64_t off, uint64_t s_guest)
{
  std::set<i128> ns;
  for (int d = -2; d <= 2; d++) ns.insert(d);
  if (off != ~0ull) {
    i128 to_start = -(i128)(off / s_guest), to_end = (i128)((kSize - off + s_guest - 1) / s_guest);
    for (int d = -1; d <= 1; d++) {
      ns.insert(to_start + d);
      ns.insert(to_end + d);
      ns.insert(-(to_start + d));
      ns.insert(-(to_end + d));
    }
  } else {
    ns.insert(3);
    ns.insert(1000);
  }
  ns.insert((i128)std::numeric_limits<long long>::min());
  ns.insert((i128)std::numeric_limits<long long>::max());
  ns.insert((i128)std::numeric_limits<int>::min());
  ns.insert((i128)std::numeric_limits<int>::max());
  ns.insert((i128)(u128)std::numeric_limits<unsigned long>::max());
  ns.insert(((i128)1 << 32) / (i128)s_guest);
  ns.insert(((i128)1 << 16) / (i128)s_guest);
  return std::vector<i128>(ns.begin(), ns.end());
}

int main(int argc, char** argv)
{
  parse(argc, argv);
  g_thorough = has_flag("--thorough");
  sbx_t sb, other;
  sb.create_sandbox(0);
  other.create_sandbox(1);
  g_sb = &sb;
  g_other = &other;
  g_base = sb.get_sandbox_impl()->base;
  g_obase = other.get_sandbox_impl()->base;
  std::string what = opt("--what", "all");
  const uint64_t commit = SB::kCommitLo;

  if (g_args.replay) {
    auto f = split(g_args.replay, '|');
    g_args.parts = 1;
    if (f[0] == "pos") positions(strtoull(f[2].c_str(), nullptr, 10));
    else if (f[0] == "malloc") { malloc_answers<char>(); malloc_answers<long>(); malloc_answers<VS>(); }
    else if (f[0] == "apptr") app_pointers();
    else if (f[0] == "rawentry") for_types(tl<C03_TYPES>{}, [&](auto* tp) { raw_entries<std::remove_pointer_t<decltype(tp)>>(); });
    else if (f[0] == "fncast") function_pointer_casts();
    else if (f[0] == "deref") { std::vector<uint64_t> reps{ strtoull(f[1].c_str(), nullptr, 10) }; deref_state<int>(0x400, reps); }
    else if (f[0] == "step") {
      uint64_t off = f[2] == "null" ? ~0ull : strtoull(f[2].c_str(), nullptr, 10);
      if (f[1] == "CDerived" || f[1] == "CBaseB") derived_cast_state(off);
      for_types(tl<C03_TYPES>{}, [&](auto* tp) {
        using T = std::remove_pointer_t<decltype(tp)>;
        if (f[1] != tyname<T>::n && f[1] != tyname<T*>::n) return;
        uint64_t sg = sizeof(rlbox::tainted_volatile<T, SB>);
        state<T>(off, nvals(off, sg));
        if (f[3] == "*pp" || f[3] == "pp[0]") { std::vector<uint64_t> reps{ strtoull(f[4].c_str(), nullptr, 10) }; deref_state<T>(off, reps); }
      });
    }
    stat("evaluations", n_trans + n_eval);
    g_cb.reset();
    finish();
    return 0;
  }

  // A. inductiveness over all states
  if (what == "all" || what == "states") {
    uint64_t blk = 0;
    for_types(tl<C03_TYPES>{}, [&](auto* tp) {
      using T = std::remove_pointer_t<decltype(tp)>;
      uint64_t sg = sizeof(rlbox::tainted_volatile<T, SB>);
      std::vector<uint64_t> offs;
      offs.push_back(~0ull);
      if (kSize <= 65536) {
        for (uint64_t o = 0; o < kSize; o++) offs.push_back(o);
      } else {
        for (uint64_t o = 0; o < 256; o++) { offs.push_back(o); offs.push_back(kSize - 1 - o); }
        for (int k = 8; k < 32; k++) for (int d = -2; d <= 2; d++) offs.push_back(((uint64_t)1 << k) + d);
      }
      for (uint64_t off : offs) {
        if (!mine(blk++ / 256)) continue;
        if (expired()) break;
        // quick tier: interior addresses only every 7th byte; ends and null always
        state<T>(off, nvals(off, sg));
      }
      setadd("pointee_types", tyname<T>::n);
    });
    {
      std::vector<uint64_t> offs{ ~0ull };
      for (uint64_t o = 0; o < 4096 && o < kSize; o++) { offs.push_back(o); offs.push_back(kSize - 1 - o); }
      for (uint64_t off : offs)
        if (mine(blk++ / 256)) derived_cast_state(off);
      setadd("pointee_types", "CDerived");
    }
    // pointer-to-pointer dereference with boundary representations in the cell (committed memory only)
    std::vector<uint64_t> reps;
    for (i128 v : lattice128())
      if (v >= 0 && v <= (i128)(u128)std::numeric_limits<PtrT>::max()) reps.push_back((uint64_t)v);
    for (uint64_t off : { (uint64_t)8, (uint64_t)0x400, (uint64_t)commit - sizeof(PtrT) })
      if (mine(off)) { deref_state<int>(off, reps); deref_state<long>(off, reps); deref_state<VS>(off, reps); }
  }
  // B. every representation in every position
  if (what == "all" || what == "positions") {
    if (sizeof(PtrT) == 2) {
      for (uint64_t r = 0; r < 65536; r++)
        if (mine(r / 64)) positions(r);
    } else if (g_thorough && has_flag("--sweep32")) {
      for (uint64_t r = 0; r < (1ull << 32); r++) {
        if (!mine(r >> 16)) continue;
        // cheap positions only in the 2^32 sweep
        PtrT rep = (PtrT)r;
        memcpy(reinterpret_cast<void*>(g_base + 0x100), &rep, sizeof rep);
        tn<int*> v = *mkp<int*>(0x100);
        n_trans++;
        if (!inv(v.UNSAFE_unverified())) { viol("C03 position=memory-cell kind=outside", "pos|memory-cell|" + std::to_string(r), "outside"); }
        if ((r & 0xffff) == 0 && expired()) break;
      }
      stat("sweep32_done", 1);
    } else {
      std::vector<uint64_t> reps;
      for (i128 v : lattice128())
        if (v >= 0 && v <= (i128)(u128)std::numeric_limits<PtrT>::max()) reps.push_back((uint64_t)v);
      if (sizeof(PtrT) == 8) {
        // representations that look like host addresses: of this region, of the other live instance, of application objects
        static int app_global;
        int app_local = 0;
        for (uint64_t o : { (uint64_t)0, (uint64_t)0x10, kSize - 4, kSize, kSize + 0x10 }) { reps.push_back(g_base + o); reps.push_back(g_obase + o); reps.push_back(g_base - 0x1000 + o); }
        reps.push_back((uint64_t)(uintptr_t)&app_global);
        reps.push_back((uint64_t)(uintptr_t)&app_local);
        reps.push_back((uint64_t)(uintptr_t)&positions);
        for (uint64_t k = 16; k < 64; k++) { reps.push_back((1ull << k) | 0x30); reps.push_back((1ull << k) - 8); }
      }
      for (uint64_t v : reps)
        if (mine(v ^ (v >> 17))) positions(v);
    }
  }
  // C. allocation answers, app pointers
  if ((what == "all" || what == "env") && g_args.part == 0) {
    malloc_answers<char>();
    malloc_answers<long>();
    malloc_answers<VS>();
    app_pointers();
    function_pointer_casts();
    for_types(tl<C03_TYPES>{}, [&](auto* tp) { raw_entries<std::remove_pointer_t<decltype(tp)>>(); });
  }
  stat("states", n_states);
  stat("transitions", n_trans);
  stat("traces", n_trans);
  stat("aborted_steps", n_abort);
  stat("evaluations", n_trans + n_eval);
  stat("nontrivial", n_nontriv + n_abort);
  sample("{\"state\":\"(pointee type, address)\",\"example\":\"long* at offset 65532, step p+n with n=1 -> must abort; step &p[-16383] -> offset 0\"}", 1);
  g_cb.reset();
  finish(expired());
  return 0;
}
