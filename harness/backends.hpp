// Backend selection for the history-style harnesses: exactly one of BK_NOOP, BK_DYLIB, BK_MBOX.
// Provides: SB (backend type), sbx_t, tn<>, kSlots, bk_name, bk_create(sbx, index, lib),
// slot_keys(sbx) (read-only view of the backend's slot table), and the guest library prototypes
// (app ABI) call_cb_n / lib_id / add3.
#pragma once
#define RLBOX_USE_EXCEPTIONS
#if defined(BK_EMBEDDER_TLS)
#  define RLBOX_EMBEDDER_PROVIDES_TLS_STATIC_VARIABLES
#endif

#if defined(BK_NOOP)
#  define RLBOX_USE_STATIC_CALLS() rlbox_noop_sandbox_lookup_symbol
#  include "rlbox_noop_sandbox.hpp"
#  include "rlbox.hpp"
#  include "guestlib.c"
using SB = rlbox::rlbox_noop_sandbox;
static const unsigned kSlots = 64;
static const char* bk_name = "noop";
#  if defined(BK_EMBEDDER_TLS)
RLBOX_NOOP_SANDBOX_STATIC_VARIABLES();
#  endif
template<class S>
static void bk_create(S& s, int, int = 1)
{
  s.create_sandbox();
}
#elif defined(BK_DYLIB)
#  include "rlbox_dylib_sandbox.hpp"
#  include "rlbox.hpp"
extern "C" {
int call_cb_n(int (*cb)(int), int v, int n);
int lib_id(void);
int lib_id2(void);
long add3(long a, int b, short c);
int inc1(int v);
int ncalls(int which);
}
using SB = rlbox::rlbox_dylib_sandbox;
static const unsigned kSlots = 64;
static const char* bk_name = "dylib";
#  if defined(BK_EMBEDDER_TLS)
RLBOX_DYLIB_SANDBOX_STATIC_VARIABLES();
#  endif
#  ifndef GUEST_LIB_DIR
#    error "GUEST_LIB_DIR must name the directory holding libguest_<lib>_<index>.so"
#  endif
// every instance loads its own file copy, so guest-side state is per instance
template<class S>
static void bk_create(S& s, int index, int lib = 1)
{
  char path[512];
  snprintf(path, sizeof path, "%s/libguest_%d_%d.so", GUEST_LIB_DIR, lib, index);
  s.create_sandbox(path);
}
#else
#  ifndef BK_MBOX
#    define BK_MBOX
#  endif
#  ifdef BK_BYNAME
// by-name lookup: RLBOX_USE_STATIC_CALLS stays undefined
#  else
#    define RLBOX_USE_STATIC_CALLS() mbox_lookup_symbol
#  endif
#  include "rlbox.hpp"
#  include "mbox.hpp"
#  ifndef BK_ABI
#    define BK_ABI abi_lp32
#  endif
#  ifndef BK_SLOTS
#    define BK_SLOTS 4
#  endif
#  ifndef BK_MODE
#    define BK_MODE MASK
#  endif
#  ifndef BK_BOOLCREATE
#    define BK_BOOLCREATE false
#  endif
using BkCfg = mb::cfg<uint16_t, mb::BK_ABI, mb::BK_MODE, BK_SLOTS, BK_BOOLCREATE>;
using SB = mb::mbox<BkCfg>;
static const unsigned kSlots = BK_SLOTS;
static const char* bk_name = "mbox";
// app-ABI prototypes (never defined)
int call_cb_n(int (*cb)(int), int v, int n);
int lib_id(void);
int lib_id2(void);
long add3(long a, int b, short c);
// guest implementations in the guest ABI
using g_int = typename SB::T_IntType;
using g_long = typename SB::T_LongType;
using g_short = typename SB::T_ShortType;
using g_ptr = typename SB::T_PointerType;
static long g_guest_calls[16][8];
static g_int guest_call_cb_n(g_ptr cb, g_int v, g_int n)
{
  auto* s = SB::current();
  g_guest_calls[s->index][0]++;
  auto f = (g_int(*)(g_int))s->rep_to_fn(cb);
  g_int sum = 0;
  MBOX_YIELD("guest:call_cb_n");
  for (g_int i = 0; i < n; i++) sum += f(v + i);
  MBOX_YIELD("guest:call_cb_n-after");
  return sum;
}
static g_int guest_lib_id()
{
  auto* s = SB::current();
  g_guest_calls[s->index][1]++;
  MBOX_YIELD("guest:lib_id");
  return (g_int)s->lib;
}
static g_long guest_add3(g_long a, g_int b, g_short c)
{
  auto* s = SB::current();
  g_guest_calls[s->index][2]++;
  return (g_long)(a + b + c + 1000 * s->lib);
}
// a second "library" exporting the same names (distinguishable results)
static g_int guest2_lib_id() { return 2; }
template<class S>
static void bk_create(S& s, int index, int lib = 1)
{
  s.create_sandbox(index, lib);
}
#endif

using sbx_t = rlbox::rlbox_sandbox<SB>;
template<class T>
using tn = rlbox::tainted<T, SB>;

// read-only view of the backend's slot table (needs -fno-access-control for the bundled backends)
static std::vector<void*> slot_keys(sbx_t& s)
{
  std::vector<void*> v;
  auto* impl = s.get_sandbox_impl();
  for (unsigned i = 0; i < kSlots; i++) v.push_back(impl->callback_unique_keys[i]);
  return v;
}
