/* Guest library for the host-ABI backends (noop: linked statically; dylib: built twice as a shared
 * object with different LIBID). Plain C, no dependency on RLBox. */
#ifndef LIBID
#  define LIBID 1
#endif
#ifndef GUEST_YIELD
#  define GUEST_YIELD()
#endif
#ifdef __cplusplus
extern "C" {
#endif

static int g_calls[8];

/* calls cb(v+i) for i in 0..n-1 and returns the sum of the results */
int call_cb_n(int (*cb)(int), int v, int n)
{
  int s = 0, i;
  g_calls[0]++;
  GUEST_YIELD();
  for (i = 0; i < n; i++) s += cb(v + i);
  GUEST_YIELD();
  return s;
}
int lib_id(void)
{
  g_calls[1]++;
  GUEST_YIELD();
  return LIBID;
}
/* same prefix as lib_id on purpose */
int lib_id2(void)
{
  g_calls[4]++;
  return LIBID + 10;
}
long add3(long a, int b, short c)
{
  g_calls[2]++;
  return a + b + c + 1000 * LIBID;
}
int inc1(int v)
{
  g_calls[3]++;
  return v + LIBID;
}
int ncalls(int which) { return g_calls[which & 7]; }

#ifdef __cplusplus
}
#endif
