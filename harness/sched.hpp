// Engine S: preemption-bounded scheduler over real OS threads (RLBox backends use thread_local, so
// coroutines on one thread would be a false model). Exactly one managed thread runs at a time; hand-off
// happens at scheduling points: every acquire/release of RLBox's shared locks (supplied to RLBox through
// its own RLBOX_USE_CUSTOM_SHARED_LOCK extension point) and explicit yields inside harness code that
// RLBox calls (mbox backend entry points, guest function bodies, callback bodies).
// A schedule is a list of choices; choice 0 = keep running the current thread (canonical order: running
// thread first if enabled, then ascending ids). Vector clocks over lock hand-offs give a happens-before
// check for the accesses announced by RLBOX_VERIF_SHARED.
#pragma once
#include <condition_variable>
#include <cstdint>
#include <map>
#include <mutex>
#include <set>
#include <stdexcept>
#include <string>
#include <thread>
#include <vector>

namespace vs {

static const int kMaxT = 4;
struct ExecAborted
{};

struct Point
{
  std::vector<int> enabled; // canonical order
  int chosen = 0;           // index into enabled
  bool running_enabled = false;
  int running = -1;
  const char* site = "";
};

struct LockState
{
  int writer = -1;
  std::set<int> readers;
  uint32_t wvc[kMaxT] = { 0, 0, 0, 0 };
  uint32_t rvc[kMaxT] = { 0, 0, 0, 0 };
};

struct Access
{
  int tid;
  uint32_t clk;
};
struct VarState
{
  Access last_write{ -1, 0 };
  uint32_t read_clk[kMaxT] = { 0, 0, 0, 0 };
  bool has_read[kMaxT] = { false, false, false, false };
};

struct Sched
{
  std::mutex m;
  std::condition_variable cv;
  bool active = false;
  int nthreads = 0;
  int running = -1;
  bool abort_exec = false;
  bool finished[kMaxT];
  // what each thread is waiting for (lock pointer, write?) or null if runnable
  const void* waiting[kMaxT];
  bool waiting_write[kMaxT];
  uint32_t vc[kMaxT][kMaxT];
  std::map<const void*, LockState> locks;
  std::map<const void*, VarState> vars;
  std::vector<int> prefix;
  size_t pos = 0;
  std::vector<Point> points;
  std::vector<std::string> races;
  bool deadlock = false;
  bool diverged = false;
  uint64_t state_hash = 0;

  void reset(int n, const std::vector<int>& pfx)
  {
    nthreads = n;
    running = -1;
    abort_exec = false;
    for (int i = 0; i < kMaxT; i++) {
      finished[i] = i >= n;
      waiting[i] = nullptr;
      waiting_write[i] = false;
      for (int j = 0; j < kMaxT; j++) vc[i][j] = 0;
      vc[i][i] = 1;
    }
    locks.clear();
    vars.clear();
    prefix = pfx;
    pos = 0;
    points.clear();
    races.clear();
    deadlock = false;
    diverged = false;
  }

  bool lock_available(const void* l, bool write)
  {
    auto& s = locks[l];
    return write ? (s.writer == -1 && s.readers.empty()) : s.writer == -1;
  }
  bool enabled(int t)
  {
    if (finished[t]) return false;
    if (!waiting[t]) return true;
    return lock_available(waiting[t], waiting_write[t]);
  }

  // decide who runs next; must be called with m held by thread `self` (self may be finished)
  int choose(int self, const char* site)
  {
    Point p;
    p.site = site;
    p.running = self;
    p.running_enabled = self >= 0 && enabled(self);
    if (p.running_enabled) p.enabled.push_back(self);
    for (int t = 0; t < nthreads; t++)
      if (t != self && enabled(t)) p.enabled.push_back(t);
    if (p.enabled.empty()) {
      bool all = true;
      for (int t = 0; t < nthreads; t++)
        if (!finished[t]) all = false;
      if (!all) {
        deadlock = true;
        abort_exec = true;
      }
      running = -2; // execution over
      cv.notify_all();
      return -2;
    }
    int c = 0;
    if (pos < prefix.size()) {
      c = prefix[pos];
      if (c < 0 || c >= (int)p.enabled.size()) {
        diverged = true; // a replayed prefix must fit: hard error for the explorer
        c = 0;
      }
    }
    pos++;
    p.chosen = c;
    points.push_back(p);
    return p.enabled[c];
  }

  void (*on_deadlock)() = nullptr; // reports and ends the process: unwinding blocked threads through RLBox's noexcept members is not possible
  // a scheduling point reached by managed thread `self`
  void point(int self, const char* site)
  {
    std::unique_lock<std::mutex> lk(m);
    if (!active) return;
    int next = choose(self, site);
    if (next == -2) {
      if (on_deadlock) on_deadlock();
      std::abort();
    }
    if (next != self) {
      running = next;
      cv.notify_all();
      cv.wait(lk, [&] { return running == self; });
    }
  }

  void thread_begin(int self)
  {
    std::unique_lock<std::mutex> lk(m);
    cv.wait(lk, [&] { return running == self; });
  }
  void thread_end(int self)
  {
    std::unique_lock<std::mutex> lk(m);
    finished[self] = true;
    int next = choose(self, "thread-end");
    if (next == -2 && deadlock) {
      if (on_deadlock) on_deadlock();
      std::abort();
    }
    if (next >= 0) {
      running = next;
      cv.notify_all();
    }
  }

  void join_vc(uint32_t* into, const uint32_t* from)
  {
    for (int i = 0; i < kMaxT; i++)
      if (from[i] > into[i]) into[i] = from[i];
  }
  void acquire(int self, const void* l, bool write)
  {
    {
      std::unique_lock<std::mutex> lk(m);
      if (!active) return;
      waiting[self] = l;
      waiting_write[self] = write;
    }
    point(self, write ? "acquire-unique" : "acquire-shared");
    std::unique_lock<std::mutex> lk(m);
    // chosen => enabled => available
    auto& s = locks[l];
    if (write) s.writer = self;
    else s.readers.insert(self);
    waiting[self] = nullptr;
    join_vc(vc[self], s.wvc);
    if (write) join_vc(vc[self], s.rvc);
  }
  void release(int self, const void* l, bool write)
  {
    {
      std::unique_lock<std::mutex> lk(m);
      if (!active) return;
      auto& s = locks[l];
      if (write) {
        s.writer = -1;
        for (int i = 0; i < kMaxT; i++) s.wvc[i] = vc[self][i];
      } else {
        s.readers.erase(self);
        join_vc(s.rvc, vc[self]);
      }
      vc[self][self]++;
    }
    point(self, write ? "release-unique" : "release-shared");
  }
  void shared_access(int self, const void* addr, bool is_write)
  {
    std::unique_lock<std::mutex> lk(m);
    if (!active || self < 0) return;
    auto& v = vars[addr];
    auto hb = [&](const Access& a) { return a.tid < 0 || a.tid == self || a.clk <= vc[self][a.tid]; };
    if (!hb(v.last_write)) races.push_back(std::string(is_write ? "write" : "read") + " by thread " + std::to_string(self) + " unordered with write by thread " + std::to_string(v.last_write.tid));
    if (is_write) {
      for (int t = 0; t < nthreads; t++)
        if (t != self && v.has_read[t] && v.read_clk[t] > vc[self][t]) races.push_back("write by thread " + std::to_string(self) + " unordered with read by thread " + std::to_string(t));
      v.last_write = { self, vc[self][self] };
    } else {
      v.has_read[self] = true;
      v.read_clk[self] = vc[self][self];
    }
  }
};

inline Sched g_sched;
inline thread_local int g_tid = -1;

// ---- the lock type handed to RLBox --------------------------------------------------------------------
struct shared_lock_t
{
  char dummy = 0;
};
struct shared_guard
{
  shared_lock_t& l;
  int t;
  explicit shared_guard(shared_lock_t& x)
    : l(x)
    , t(g_tid)
  {
    if (t >= 0) g_sched.acquire(t, &l, false);
  }
  ~shared_guard()
  {
    if (t >= 0) g_sched.release(t, &l, false);
  }
};
struct unique_guard
{
  shared_lock_t& l;
  int t;
  explicit unique_guard(shared_lock_t& x)
    : l(x)
    , t(g_tid)
  {
    if (t >= 0) g_sched.acquire(t, &l, true);
  }
  ~unique_guard()
  {
    if (t >= 0) g_sched.release(t, &l, true);
  }
};
inline void yield_point(const char* site)
{
  if (g_tid >= 0) g_sched.point(g_tid, site);
}

} // namespace vs

#ifndef VS_DEFAULT_LOCKS
#  define RLBOX_USE_CUSTOM_SHARED_LOCK
#  define RLBOX_SHARED_LOCK(name) ::vs::shared_lock_t name
#  define RLBOX_ACQUIRE_SHARED_GUARD(name, ...) ::vs::shared_guard name(__VA_ARGS__)
#  define RLBOX_ACQUIRE_UNIQUE_GUARD(name, ...) ::vs::unique_guard name(__VA_ARGS__)
#else
// RLBox's DEFAULT lock macros stay in force (rlbox_helpers.hpp: a std shared mutex with std::shared_lock / std::unique_lock guards).
// The pthread rwlock operations they end in are interposed by defining them here: for a managed thread they are
// scheduling points and the scheduler's own lock state decides who may proceed (exactly one managed thread runs at a
// time, so the real lock is not needed); any other thread gets the real libc function.
#  include <dlfcn.h>
#  include <pthread.h>
namespace vs {
using rwfn = int (*)(pthread_rwlock_t*);
inline rwfn real_rw(const char* name)
{
  return reinterpret_cast<rwfn>(dlsym(RTLD_NEXT, name));
}
inline int rw_acquire(pthread_rwlock_t* l, bool write)
{
  if (g_tid >= 0) {
    g_sched.acquire(g_tid, l, write);
    return 0;
  }
  static rwfn frd = real_rw("pthread_rwlock_rdlock"), fwr = real_rw("pthread_rwlock_wrlock");
  return write ? fwr(l) : frd(l);
}
inline int rw_release(pthread_rwlock_t* l)
{
  if (g_tid >= 0) {
    bool write;
    {
      std::unique_lock<std::mutex> lk(g_sched.m);
      write = g_sched.locks[l].writer == g_tid;
    }
    g_sched.release(g_tid, l, write);
    return 0;
  }
  static rwfn f = real_rw("pthread_rwlock_unlock");
  return f(l);
}
}
extern "C" {
int pthread_rwlock_rdlock(pthread_rwlock_t* l) { return vs::rw_acquire(l, false); }
int pthread_rwlock_wrlock(pthread_rwlock_t* l) { return vs::rw_acquire(l, true); }
int pthread_rwlock_tryrdlock(pthread_rwlock_t* l) { return vs::rw_acquire(l, false); }
int pthread_rwlock_trywrlock(pthread_rwlock_t* l) { return vs::rw_acquire(l, true); }
int pthread_rwlock_timedrdlock(pthread_rwlock_t* l, const struct timespec*) { return vs::rw_acquire(l, false); }
int pthread_rwlock_timedwrlock(pthread_rwlock_t* l, const struct timespec*) { return vs::rw_acquire(l, true); }
int pthread_rwlock_clockrdlock(pthread_rwlock_t* l, clockid_t, const struct timespec*) { return vs::rw_acquire(l, false); }
int pthread_rwlock_clockwrlock(pthread_rwlock_t* l, clockid_t, const struct timespec*) { return vs::rw_acquire(l, true); }
int pthread_rwlock_unlock(pthread_rwlock_t* l) { return vs::rw_release(l); }
}
#endif
#define MBOX_YIELD(site) ::vs::yield_point(site)
