// C17 — indexing a tainted fixed-size array is bounds-checked for every index type.
// Engine X: element type x length x shape x wrapper (tainted: application layout; tainted_volatile:
// guest layout in mbox memory) x index type/wrapper x index value. Oracle: abort iff idx<0 or idx>=len,
// else the designated element address is start + idx*elem_size(layout); a store through it changes only
// that element (canaries around the array).
#include <cstdint>
static thread_local int g_abort_flag = 0;
#define RLBOX_CUSTOM_ABORT(msg) (g_abort_flag = 1)
#include "rlbox.hpp"
#include "mbox.hpp"
#include "vcommon.hpp"

using namespace vc;
#ifdef C17_PTR
// pointer-wide guest pointers over a 64 KiB region with lp32 integers: guest pointer and guest long differ in width
using Cfg = mb::cfg<C17_PTR, mb::abi_lp32, mb::MASK, 2, false, 16>;
#else
using Cfg = mb::cfg<uint16_t, mb::abi_lp32, mb::MASK, 2>;
#endif
using SB = mb::mbox<Cfg>;
using sbx_t = rlbox::rlbox_sandbox<SB>;
template<class T>
using tn = rlbox::tainted<T, SB>;
template<class T>
using tv = rlbox::tainted_volatile<T, SB>;

template<class T>
struct gsize;
#define GS(T, n)                                                                                                   \
  template<>                                                                                                       \
  struct gsize<T>                                                                                                  \
  {                                                                                                                \
    static constexpr uint64_t v = n;                                                                               \
    static constexpr const char* name = #T;                                                                        \
  };
GS(char, 1)
GS(short, 2)
GS(int, 4)
GS(long, 4)
GS(long long, 8)
GS(double, 8)
GS(int*, sizeof(Cfg::PtrT))
GS(unsigned long, 4)
GS(unsigned long long, 8)
GS(unsigned, 4)
GS(unsigned short, 2)
#undef GS

static bool g_thorough = false;
static long long n_eval = 0, n_nontriv = 0, n_abort_expected = 0;
static sbx_t* g_sb;
static uintptr_t g_base;

template<class IT>
static void ivalues(uint64_t len, std::vector<IT>& out)
{
  out.clear();
  if constexpr (sizeof(IT) <= 2) {
    for (i128 v = (i128)std::numeric_limits<IT>::min(); v <= (i128)std::numeric_limits<IT>::max(); v++) out.push_back((IT)v);
  } else {
    std::set<i128> s;
    if (len <= 64) for (i128 v = -2; v <= (i128)len + 2; v++) s.insert(v);
    else for (i128 v : { (i128)-2, (i128)-1, (i128)0, (i128)1, (i128)len / 2, (i128)len - 1, (i128)len, (i128)len + 1, (i128)len + 2 }) s.insert(v);
    s.insert((i128)std::numeric_limits<IT>::min());
    s.insert((i128)std::numeric_limits<IT>::min() + 1);
    s.insert((i128)(u128)std::numeric_limits<IT>::max());
    s.insert((i128)(u128)std::numeric_limits<IT>::max() - 1);
    std::vector<uint64_t> is;
    if (len <= 64) for (uint64_t i = 0; i < len; i++) is.push_back(i);
    else is = { 0, 1, 2, len / 2, len - 2, len - 1 };
    for (uint64_t i : is)
      for (int k : { 8, 16, 31, 32, 33, 63 }) {
        s.insert(((i128)1 << k) + i);
        s.insert(-((i128)1 << k) + i);
      }
    if (g_thorough && len <= 64) {
      // every index up to 8x the length (a bound computed from a wrong element size is off by a factor <= 8), a wide band around 0,
      // and aliasing values for every power of two
      for (i128 v = -300; v <= (i128)len * 8 + 300; v++) s.insert(v);
      for (uint64_t i = 0; i < len; i++)
        for (int k = 3; k <= 64; k++) {
          s.insert(((i128)1 << k) + i);
          s.insert(-((i128)1 << k) + i);
          s.insert(((i128)1 << k) - 1 - i);
        }
    }
    for (i128 v : s)
      if (representable<IT>(v)) out.push_back((IT)v);
  }
}

// index wrapper forms: 0 plain, 1 tainted, 2 tainted_volatile (cell in sandbox memory)
template<class IT, int IF, class F>
static bool with_index(IT n, F&& f)
{
  if constexpr (IF == 0) {
    f(n);
    return true;
  } else if constexpr (IF == 1) {
    tn<IT> t = n;
    f(t);
    return true;
  } else {
    tn<IT*> pn;
    pn.assign_raw_pointer(*g_sb, reinterpret_cast<IT*>(g_base + 0x7fe0));
    g_abort_flag = 0;
    *pn = n;
    if (g_abort_flag) return false;
    f(*pn);
    return true;
  }
}

static void report(const char* wrapper, const char* elem, uint64_t len, const char* shape, const char* itype, int iform, i128 idx, bool aborted,
                   bool in_range, uintptr_t got, uintptr_t want, bool store_ok)
{
  static const char* ifn[] = { "plain", "tainted", "tainted_volatile" };
  n_eval++;
  if (idx < 0 || idx >= (i128)len) n_nontriv++;
  std::string kase = std::string(wrapper) + "|" + elem + "|" + shape + "|" + std::to_string(len) + "|" + itype + "|" + ifn[iform] + "|" + str(idx);
  std::string sg = std::string("C17 wrapper=") + wrapper + " elem=" + elem + " shape=" + shape + " itype=" + itype + " iform=" + ifn[iform];
  if (!in_range) {
    n_abort_expected++;
    if (!aborted) viol(sg + " kind=out-of-range-no-abort", kase, "index " + str(idx) + " with length " + std::to_string(len) + " did not abort");
  } else {
    if (aborted) viol(sg + " kind=spurious-abort", kase, "valid index " + str(idx) + " aborted");
    else if (got != want) viol(sg + " kind=wrong-element", kase, "designates byte offset " + str((i128)got - (i128)(want - (uintptr_t)0)) + " from the expected element");
    else if (!store_ok) viol(sg + " kind=store-hits-neighbour", kase, "a store through the designated element changed other bytes");
  }
}

// ---- 1-D, tainted (application layout) ----------------------------------------------------------
template<class T, size_t N, class IT, int IF>
static void one_tainted(IT idx)
{
  struct
  {
    uint8_t pre[32];
    tn<T[N]> a;
    uint8_t post[32];
  } box;
  constexpr bool big = N > 64; // long arrays (index-width aliasing needs N > 128 / N > 32768): abort + address only, no canary scan
  if (!big) memset(&box, 0xA5, sizeof box);
  i128 im = std::is_signed_v<IT> ? (i128)idx : (i128)(u128)idx;
  bool in_range = im >= 0 && im < (i128)N;
  uintptr_t got = 0;
  bool store_ok = true, aborted = false;
  bool ex = with_index<IT, IF>(idx, [&](auto&& ix) {
    g_abort_flag = 0;
    auto& el = box.a[ix];
    aborted = g_abort_flag;
    got = reinterpret_cast<uintptr_t>(&el);
    if (!big && !aborted && in_range) {
      memset(reinterpret_cast<void*>(got), 0x3C, sizeof(T));
      const uint8_t* b = reinterpret_cast<const uint8_t*>(&box);
      uintptr_t off = got - reinterpret_cast<uintptr_t>(&box);
      for (size_t i = 0; i < sizeof box; i++)
        if ((i < off || i >= off + sizeof(T)) && b[i] != 0xA5) store_ok = false;
    }
  });
  if (!ex) return;
  uintptr_t want = reinterpret_cast<uintptr_t>(&box.a) + (uintptr_t)((uint64_t)im * sizeof(T));
  report("tainted", gsize<T>::name, N, "1d", tname<IT>(), IF, im, aborted, in_range, got, want, store_ok);
}

// ---- 1-D, tainted_volatile (guest layout, in sandbox memory) ------------------------------------
template<class T, size_t N, class IT, int IF>
static void one_volatile(IT idx)
{
  const uint64_t s = gsize<T>::v;
  const uint64_t OFF = 0x1000;
  uint8_t* region = reinterpret_cast<uint8_t*>(g_base + OFF - 64);
  const size_t span = 64 + N * 8 + 64;
  constexpr bool big = N > 64;
  if (!big) memset(region, 0xA5, span);
  tn<T(*)[N]> p;
  p.assign_raw_pointer(*g_sb, reinterpret_cast<T(*)[N]>(g_base + OFF));
  i128 im = std::is_signed_v<IT> ? (i128)idx : (i128)(u128)idx;
  bool in_range = im >= 0 && im < (i128)N;
  uintptr_t got = 0;
  bool store_ok = true, aborted = false;
  bool ex = with_index<IT, IF>(idx, [&](auto&& ix) {
    g_abort_flag = 0;
    auto& el = (*p)[ix];
    aborted = g_abort_flag;
    got = reinterpret_cast<uintptr_t>(&reinterpret_cast<const volatile char&>(el));
    if (sizeof(el) != s) store_ok = false;
    if (!big && !aborted && in_range) {
      memset(reinterpret_cast<void*>(got), 0x3C, s);
      uintptr_t off = got - reinterpret_cast<uintptr_t>(region);
      for (size_t i = 0; i < span; i++)
        if ((i < off || i >= off + s) && region[i] != 0xA5) store_ok = false;
    }
  });
  if (!ex) return;
  uintptr_t want = g_base + OFF + (uintptr_t)((uint64_t)im * s);
  report("tainted_volatile", gsize<T>::name, N, "1d", tname<IT>(), IF, im, aborted, in_range, got, want, store_ok);
}

// ---- 2-D --------------------------------------------------------------------------------------
template<class T, size_t R, size_t C, class IT, int IF>
static void two_d(IT i0, IT i1)
{
  i128 a0 = std::is_signed_v<IT> ? (i128)i0 : (i128)(u128)i0;
  i128 a1 = std::is_signed_v<IT> ? (i128)i1 : (i128)(u128)i1;
  std::string shape = std::to_string(R) + "x" + std::to_string(C);
  // tainted
  {
    struct
    {
      uint8_t pre[32];
      tn<T[R][C]> a;
      uint8_t post[32];
    } box;
    memset(&box, 0xA5, sizeof box);
    bool in0 = a0 >= 0 && a0 < (i128)R, in1 = a1 >= 0 && a1 < (i128)C;
    uintptr_t got = 0;
    bool aborted = false;
    with_index<IT, IF>(i0, [&](auto&& x0) {
      g_abort_flag = 0;
      auto& row = box.a[x0];
      bool ab0 = g_abort_flag;
      if (ab0 || !in0) {
        // first dimension decides alone
        report("tainted", gsize<T>::name, R, (shape + "/dim0").c_str(), tname<IT>(), IF, a0, ab0, in0, 0, 0, true);
        return;
      }
      IT j = i1;
      g_abort_flag = 0;
      auto& el = row[j];
      aborted = g_abort_flag;
      got = reinterpret_cast<uintptr_t>(&el);
      uintptr_t want = reinterpret_cast<uintptr_t>(&box.a) + (uintptr_t)(((uint64_t)a0 * C + (uint64_t)a1) * sizeof(T));
      report("tainted", gsize<T>::name, C, (shape + "/dim1").c_str(), tname<IT>(), IF, a1, aborted, in1, got, want, true);
    });
  }
  // tainted_volatile
  {
    const uint64_t s = gsize<T>::v;
    const uint64_t OFF = 0x2000;
    tn<T(*)[R][C]> p;
    p.assign_raw_pointer(*g_sb, reinterpret_cast<T(*)[R][C]>(g_base + OFF));
    bool in0 = a0 >= 0 && a0 < (i128)R, in1 = a1 >= 0 && a1 < (i128)C;
    with_index<IT, IF>(i0, [&](auto&& x0) {
      g_abort_flag = 0;
      auto& row = (*p)[x0];
      bool ab0 = g_abort_flag;
      if (ab0 || !in0) {
        report("tainted_volatile", gsize<T>::name, R, (shape + "/dim0").c_str(), tname<IT>(), IF, a0, ab0, in0, 0, 0, true);
        return;
      }
      IT j = i1;
      g_abort_flag = 0;
      auto& el = row[j];
      bool aborted = g_abort_flag;
      uintptr_t got = reinterpret_cast<uintptr_t>(&reinterpret_cast<const volatile char&>(el));
      uintptr_t want = g_base + OFF + (uintptr_t)(((uint64_t)a0 * C + (uint64_t)a1) * s);
      report("tainted_volatile", gsize<T>::name, C, (shape + "/dim1").c_str(), tname<IT>(), IF, a1, aborted, in1, got, want, true);
    });
  }
}

template<class... Ts>
struct tl
{};
template<class F, class... Ts>
static void for_types(tl<Ts...>, F f)
{
  (f((Ts*)nullptr), ...);
}
using ITs = tl<signed char, unsigned char, short, unsigned short, int, unsigned, long, unsigned long, long long, unsigned long long>;

static uint64_t g_blk = 0;
static std::string g_rp_wrapper, g_rp_elem, g_rp_shape, g_rp_itype, g_rp_iform;
static uint64_t g_rp_len = 0;
static i128 g_rp_idx = 0;
static bool g_replay = false;

template<class T, size_t N, bool AllForms>
static void arr1d()
{
  for_types(ITs{}, [&](auto* ip) {
    using IT = std::remove_pointer_t<decltype(ip)>;
    if (g_replay) {
      if (g_rp_shape != "1d" || g_rp_len != N || g_rp_elem != gsize<T>::name || g_rp_itype != tname<IT>()) return;
      IT v = (IT)g_rp_idx;
      bool tw = g_rp_wrapper == "tainted";
      if (g_rp_iform == "plain") tw ? one_tainted<T, N, IT, 0>(v) : one_volatile<T, N, IT, 0>(v);
      if constexpr (AllForms) {
        if (g_rp_iform == "tainted") tw ? one_tainted<T, N, IT, 1>(v) : one_volatile<T, N, IT, 1>(v);
        if (g_rp_iform == "tainted_volatile") tw ? one_tainted<T, N, IT, 2>(v) : one_volatile<T, N, IT, 2>(v);
      }
      return;
    }
    if (!mine(g_blk++)) return;
    std::vector<IT> vs;
    ivalues<IT>(N, vs);
    for (IT v : vs) {
      one_tainted<T, N, IT, 0>(v);
      one_volatile<T, N, IT, 0>(v);
      if constexpr (AllForms) {
        one_tainted<T, N, IT, 1>(v);
        one_volatile<T, N, IT, 1>(v);
        one_tainted<T, N, IT, 2>(v);
        one_volatile<T, N, IT, 2>(v);
      }
    }
  });
}

template<class T, size_t R, size_t C>
static void arr2d()
{
  for_types(ITs{}, [&](auto* ip) {
    using IT = std::remove_pointer_t<decltype(ip)>;
    if (g_replay) {
      std::string sh = std::to_string(R) + "x" + std::to_string(C);
      if (g_rp_shape.rfind(sh, 0) != 0 || g_rp_elem != gsize<T>::name || g_rp_itype != tname<IT>()) return;
    } else if (!mine(g_blk++)) return;
    std::vector<IT> v0, v1;
    std::set<i128> s;
    for (i128 v = -2; v <= 5; v++) s.insert(v);
    s.insert((i128)std::numeric_limits<IT>::min());
    s.insert((i128)(u128)std::numeric_limits<IT>::max());
    for (int k : { 8, 16, 32 })
      for (int i = 0; i < 3; i++) s.insert(((i128)1 << k) + i);
    // aliasing: flattened index valid but a component out of range
    std::vector<IT> vals;
    for (i128 v : s)
      if (representable<IT>(v)) vals.push_back((IT)v);
    for (IT a : vals)
      for (IT b : vals) {
        two_d<T, R, C, IT, 0>(a, b);
        two_d<T, R, C, IT, 1>(a, b);
      }
  });
}

template<class T, size_t... Ns>
static void lens_all(std::index_sequence<Ns...>)
{
  (arr1d<T, Ns + 1, true>(), ...);
}
template<class T>
static void lens_some()
{
  arr1d<T, 1, false>();
  arr1d<T, 2, false>();
  arr1d<T, 3, false>();
  arr1d<T, 8, false>();
  arr1d<T, 16, false>();
}

int main(int argc, char** argv)
{
  parse(argc, argv);
  g_thorough = has_flag("--thorough");
  sbx_t sb;
  sb.create_sandbox(0);
  g_sb = &sb;
  g_base = sb.get_sandbox_impl()->base;
  if (g_args.replay) {
    auto f = split(g_args.replay, '|');
    g_replay = true;
    g_rp_wrapper = f[0];
    g_rp_elem = f[1];
    g_rp_shape = f[2];
    g_rp_len = strtoull(f[3].c_str(), nullptr, 10);
    g_rp_itype = f[4];
    g_rp_iform = f[5];
    g_rp_idx = parse_i128(f[6]);
  }
#ifdef C17_A
  lens_all<int>(std::make_index_sequence<16>{});
#endif
#ifdef C17_B
  lens_all<char>(std::make_index_sequence<16>{});
#endif
#ifdef C17_C
  lens_some<short>();
  lens_some<long>();
  lens_some<long long>();
  lens_some<int*>();
  lens_some<double>();
#endif
#ifdef C17_E
  // long arrays: a negative 8-bit index viewed as unsigned is < 256, a negative 16-bit index < 65536 - the lengths that a
  // check done in the index's own width would let through
  arr1d<char, 129, false>();
  arr1d<char, 200, false>();
  arr1d<char, 256, false>();
  arr1d<char, 300, false>();
  arr1d<char, 32769, false>();
  arr1d<char, 40000, false>();
  arr1d<long, 200, false>();
#endif
#ifdef C17_F
  // unsigned element types and pointers under the pointer-wide build (C17_PTR): element stride = the guest's width of the type
  lens_some<unsigned long>();
  lens_some<unsigned long long>();
  lens_some<unsigned>();
  lens_some<unsigned short>();
  lens_some<int*>();
  lens_some<long>();
#endif
#ifdef C17_D
  arr2d<int, 2, 3>();
  arr2d<int, 3, 2>();
  arr2d<long, 2, 3>();
  arr2d<char, 3, 2>();
#endif
  stat("evaluations", n_eval);
  stat("nontrivial", n_nontriv);
  stat("abort_expected", n_abort_expected);
  if (!g_replay) sample("{\"wrapper\":\"tainted|tainted_volatile\",\"lengths\":\"1..16\",\"index_types\":10,\"index_values\":\"all 8/16-bit values; boundary+aliasing values for 32/64-bit\"}", 1);
  finish();
  return 0;
}
